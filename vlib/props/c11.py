"""C11 - AArch64 long branches reach their intended target.

Quick tier
  * in-process correspondence `thunk-assign` (real `assign_thunk_blocks` through the hook
    libwild::verif_api::thunks vs the Lean model `Wild.Thunks.assignThunkBlocks`) on ~5000 generated range
    lists with small and real `max_branch_range`, + an independent Python oracle of blocks_cover /
    block spacing / thunk reach in a simulated final layout on the implementation's answer;
  * `thunk-write` (real `ElfAArch64::write_thunk` vs model `writeThunk`) + Python ADRP/ADD decoder;
  * constants and the text of the `provably_in_range` closure are re-extracted from the source and compared
    with what the model mirrors (the closure is not separable from `process_primary_part_refs`);
  * one real AArch64 link (> 128 MiB of text) by the hooked wild and by ld.lld: every generated B/BL is
    decoded in both outputs and followed through thunks / PLT stubs to its final symbol.
Thorough tier: 20x the in-process cases, 7 real links incl. the input of known finding
thunk-block-placed-out-of-range (no object larger than 125 MiB, 257 MiB of text), a shared-library variant, PIE,
-shared output, and the excluded point of the theorems (a thunk block larger than 2 MiB).
"""
import os
import re
import struct

from .. import elfread, linkutil, runner

LEAN_MODULES = ["WildModel.Props.C11"]
THEOREMS = [
    # code as it is
    "Wild.C11.C11_blocks_cover_full_witness",
    "Wild.C11.blocks_cover_partial",
    # automaton-independent layout / instruction theorems
    "Wild.C11.thunk_reaches_layout",
    "Wild.C11.skip_is_safe",
    "Wild.C11.skip_is_safe_nonprimary",
    "Wild.C11.nonprimary_thunk_reaches",
    "Wild.C11.thunk_computes_target",
    "Wild.C11.adrpReach_of_close",
    "Wild.C11.thunk_beyond_reach_witness",
    "Wild.C11.thunk_words_shape",
    # proposed automaton (patch c11-thunk-block-placement-proposal.diff, not in the tree)
    "Wild.C11.blocks_cover_proposed",
    "Wild.C11.owner_pos_proposed",
    "Wild.C11.block_has_owner_proposed",
    "Wild.C11.blocks_spaced_proposed",
    "Wild.C11.thunk_reaches_proposed",
    "Wild.C11.branch_reaches_target_proposed",
    "Wild.C11.no_out_of_range_error_proposed",
    "Wild.C11.C11_full_witness",
]
LEVEL = "proof"
NEEDS_WILD = True
TRUSTED = [
    "hand-written model lean/WildModel/Model/Thunks.lean of libwild/src/thunks.rs (assign_thunk_blocks, provably_in_range, "
    "collect_primary_ranges), elf_aarch64.rs (write_thunk, constants), layout.rs (thunks appended after the owner's sections); "
    "assign_thunk_blocks and write_thunk are tied by differential correspondence on the real code, the provably_in_range closure "
    "and the constants by re-extraction of the source text, everything else by whole AArch64 links compared with ld.lld 14",
    "final layout of the theorems: pre-thunk offset x of the primary part lands at base + pad + x + (bytes of the thunk blocks whose "
    "owner ends at or before x); assumes every primary-part input section size is a multiple of 4 (AArch64 code), so that "
    "post_gc_primary_bytes (sum of raw section sizes) equals the space the sections occupy",
    "AArch64 semantics of ADRP / ADD (immediate) / B / BL immediates as stated in Props/C13Spec.lean (A64S.decode) and Props/C11.lean "
    "(execAdrp, execAdd); no execution (no qemu): outputs are only inspected statically",
    "bv_decide (LRAT-checked SAT certificates) for thunk_computes_target / thunk_words_shape",
]
RULE = ("thunk-assign: structured random range lists (sizes tiny..>range, gaps, zero-size, huge single objects; ranges 64..4096 and the "
        "real 126 MiB); a case is non-trivial when more than one block results or an object exceeds the range; distinct by request text. "
        "thunk-write: random and boundary (thunk, target) pairs. Whole links: one generated B/BL per call site, followed to its symbol.")
ASSUMPTIONS = [
    "non-primary executable code (PLT, .init/.fini, .text parts with alignment > 4) precedes the primary part and n + pad + size(first object) <= 126 MiB (documented in thunks.rs)",
    "every thunk block holds at most MAXIMUM_THUNK_BYTES_PER_BLOCK = 2 MiB of thunks (unchecked by wild; 174762 distinct far callees per cluster)",
    "no single object has more than 126 MiB of primary text (per-object thunk granularity; known finding object-larger-than-branch-range)",
    "code as it is: W (largest object size + gap) + thunk bytes of a block <= 2 MiB, else an object before its block can be out of range (known finding thunk-block-placed-out-of-range)",
    "branches through a thunk have addend 0 (known finding thunk-drops-addend)",
]
EXPLANATION = ("The model `assignThunkBlocks` mirrors the code as it is: blocks_cover at full strength is false (C11_blocks_cover_full_witness, "
               "known finding thunk-block-placed-out-of-range, reproduced on the real binary); blocks_cover_partial holds with the slack W = "
               "max(object size + gap). The full-strength automaton theorems are proved for the PROPOSED placement (patch kept in "
               "scratch/c11/c11-thunk-block-placement-proposal.diff; it cannot be a fix commit because it edits a unit test). C11_full (no "
               "hypothesis on object sizes / thunk bytes) is false even then (known findings object-larger-than-branch-range, thunk-block-overflow).")

MiB = 1 << 20
R_REAL = 126 * MiB
M_REAL = 2 * MiB
THUNKS_RS = os.path.join(runner.REPO, "libwild", "src", "thunks.rs")
A64_RS = os.path.join(runner.REPO, "libwild", "src", "elf_aarch64.rs")

# The text of the closure the model `provablyInRange` mirrors (whitespace-normalised).
PIR_EXPECTED = (
    "let provably_in_range = |src_start: u64, src_end: u64, definition_id: SymbolId| -> bool { "
    "let definition_flags = per_symbol_flags.flags_for_symbol(definition_id); "
    "if definition_flags.contains(ValueFlags::DYNAMIC) { return false; } "
    "if let Some((def_start, def_end)) = primary_range_for_symbol(definition_id) { "
    "let span_start = src_start.min(def_start); let span_end = src_end.max(def_end); "
    "return span_end.saturating_sub(span_start) < self.branch_range; } "
    "src_end < self.branch_range };")
PRS_EXPECTED = (
    "let primary_range_for_symbol = |definition_id: SymbolId| -> Option<(u64, u64)> { "
    "let definition_flags = per_symbol_flags.flags_for_symbol(definition_id); "
    "if definition_flags.contains(ValueFlags::IFUNC) || definition_flags.contains(ValueFlags::DYNAMIC) "
    "|| definition_flags.contains(ValueFlags::PLT) "
    "|| symbol_db.part_id_for_symbol(definition_id) != self.primary_function_part_id { return None; } "
    "let fid = symbol_db.file_id_for_symbol(definition_id); primary_ranges[fid.group()][fid.file()] };")


# ----------------------------------------------------------------------------- source re-extraction
def _strip_comments(text):
    return "\n".join(l.split("//", 1)[0] for l in text.split("\n"))


def _closure_text(src, name):
    i = src.find(f"let {name} =")
    if i < 0:
        return None
    j = src.find("\n        };", i)
    if j < 0:
        return None
    return " ".join(_strip_comments(src[i:j + len("\n        };")]).split())


def check_source(ctx):
    src = open(THUNKS_RS).read()
    a64 = open(A64_RS).read()
    for name, exp in (("provably_in_range", PIR_EXPECTED), ("primary_range_for_symbol", PRS_EXPECTED)):
        got = _closure_text(src, name)
        if got != exp:
            ctx.broken.append(f"source tie: closure `{name}` in thunks.rs no longer has the text the model mirrors (model Wild.Thunks.provablyInRange "
                              f"needs review): {got!r}")
    m = re.search(r"branch_range:\s*config\.min_branch_range\s*-\s*MAXIMUM_THUNK_BYTES_PER_BLOCK\s*,", src)
    if not m:
        ctx.broken.append("source tie: ThunkLayoutBuilder::new no longer sets branch_range = min_branch_range - MAXIMUM_THUNK_BYTES_PER_BLOCK")
    if not re.search(r"if total_executable_bytes < config\.min_branch_range \{", src):
        ctx.broken.append("source tie: ThunkLayoutBuilder::new threshold changed")
    m = re.search(r"const THUNK_TEMPLATE: &\[u8\] = &\[(.*?)\];", a64, re.S)
    tmpl = bytes(int(x, 16) for x in re.findall(r"0x([0-9a-fA-F]{2})", _strip_comments(m.group(1)))) if m else b""
    if tmpl != bytes.fromhex("100000901002009100021fd6"):
        ctx.broken.append(f"source tie: THUNK_TEMPLATE changed: {tmpl.hex()}")
    # constants through the hook vs the model
    dis, impl, model = ctx.differential("thunk-consts", ["thunk-consts"])
    if impl and impl[0] != f"min_branch_range=0x{128 * MiB:x} thunk_size=0xc max_thunk_bytes=0x{M_REAL:x}":
        ctx.broken.append(f"constants changed: {impl[0]}")


# ----------------------------------------------------------------------------- thunk-assign
def gen_ranges(r, R):
    """Structured random range list (increasing)."""
    style = r.below(10)
    n = r.choice([0, 1, 2, 3, 5, 8, 13, 21, 34, 60]) if style != 9 else r.range(60, 200)
    off = r.choice([0, 0, 4, R // 2, R - 4, R, r.below(4 * R + 1)])
    objs = []
    for i in range(n):
        k = r.below(12)
        if style == 0:
            sz = r.range(1, max(1, R // 16))                      # many small ones
        elif style == 1:
            sz = r.choice([R - 2, R - 1, R, R + 1, R // 2, R // 2 + 1, R // 2 - 1, 1])
        elif style == 2 and i == n // 2:
            sz = r.range(R, 4 * R)                                # single huge object
        elif k == 0:
            sz = 0
        elif k == 1:
            sz = r.range(R, 3 * R)
        elif k == 2:
            sz = r.choice([R - 1, R, R + 1])
        elif k < 6:
            sz = r.range(1, max(1, R // 3))
        else:
            sz = r.range(1, max(1, R // 8))
        if R >= 1024 and r.chance(3, 4):
            sz &= ~3
        gap = 0
        g = r.below(10)
        if g == 0:
            gap = r.range(1, 63)
        elif g == 1:
            gap = r.range(1, max(1, R))
        start = off + gap
        objs.append((start, start + sz))
        off = start + sz
    return objs


def parse_assign(out):
    t = out.split()
    if not t or not t[0].startswith("n="):
        return None
    n = int(t[0][2:])
    asg = []
    for x in t[1:]:
        if x == "none":
            asg.append(None)
        else:
            b, o = x.split(":")
            asg.append((int(b), o == "o"))
    return n, asg


def oracle_assign(R, objs, out, r):
    """Independent statement of blocks_cover (+ what the layout argument needs) on the implementation's answer.
    Returns None or a description of the failure."""
    p = parse_assign(out)
    if p is None:
        return f"unparsable answer {out!r}"
    n, asg = p
    if len(asg) != len(objs):
        return "wrong number of assignments"
    if not objs:
        return None if n == 0 else "blocks without objects"
    if any(a is None for a in asg):
        return "object without a block"
    owners = {}
    for i, (b, o) in enumerate(asg):
        if b >= n:
            return f"object {i} uses block {b} >= num_blocks {n}"
        if o:
            if b in owners:
                return f"block {b} has two owners"
            owners[b] = i
    for b in range(n):
        if b not in owners:
            return f"block {b} has no owner"
    pos = {b: objs[i][1] for b, i in owners.items()}
    for b in range(1, n):
        if pos[b] < pos[b - 1] + R:
            return f"blocks {b - 1},{b} closer than the range: {pos[b - 1]} {pos[b]}"
    # W = largest (end of object - end of previous object); blocks_cover_partial applies when W <= R
    W, prev_end = 0, objs[0][0]
    for s, e in objs:
        W = max(W, e - prev_end)
        prev_end = e
    known = None
    for i, ((s, e), (b, o)) in enumerate(zip(objs, asg)):
        pb = pos[b]
        if o or e == s:
            continue
        if s >= pb:
            if not e - pb < R:
                return f"object {i} [{s},{e}) is not within {R} of its block {b} at {pb}"
        elif not e <= pb:
            return f"object {i} [{s},{e}) straddles its block {b} at {pb}"
        elif not pb - s < R:
            if W <= R and not pb - s <= R + W:
                return f"object {i} [{s},{e}) is not within {R}+{W} of its block {b} at {pb}"
            known = f"known: object {i} [{s},{e}) starts {pb - s} >= {R} before its block {b} at {pb} (placement of the pending block)"
    # simulated final layout: thunk bytes T_b <= M inserted after each owner; every byte of every object of size <= R
    # must be within R + W + M of every thunk of its block (W = 0 would be the proposed placement)
    if W <= R:
        M = max(12, R // 63 // 12 * 12)
        T = {b: r.choice([0, 12, M, r.below(M // 12 + 1) * 12]) for b in range(n)}
        shift = 0
        fin = []
        taddr = {}
        for i, ((s, e), (b, o)) in enumerate(zip(objs, asg)):
            fin.append((s + shift, e + shift))
            if o:
                taddr[b] = e + shift
                shift += T[b]
        for i, ((fs, fe), (b, o)) in enumerate(zip(fin, asg)):
            s, e = objs[i]
            if e == s or T[b] == 0:
                continue
            for place in (fs, fe - 1):
                for th in (taddr[b], taddr[b] + T[b] - 12):
                    if abs(th - place) >= R + W + M:
                        return f"final layout: byte {place} of object {i} is {abs(th - place)} >= {R + W + M} from thunk {th} of block {b} (T={T})"
    return known


    return None


def run_assign(ctx):
    r = ctx.rng.fork()
    n = 5000 if ctx.quick else 100000
    lines, cases = [], []
    # corpus: the repo's unit tests, the real-size input of known finding thunk-block-placed-out-of-range, boundaries
    corpus = [
        (1000, [(0, 100), (100, 200), (200, 300)]),
        (500, [(0, 100), (300, 400), (600, 700), (900, 1000), (1200, 1300)]),
        (R_REAL, [(0, 16), (16, 16 + 125 * MiB), (16 + 125 * MiB, 16 + 127 * MiB), (16 + 127 * MiB, 16 + 227 * MiB), (16 + 227 * MiB, 16 + 257 * MiB),
                  (16 + 257 * MiB, 16 + 258 * MiB)]),
        (100, [(0, 10), (10, 109), (109, 110)]),
        (100, [(0, 10), (10, 110), (110, 111)]),
        (100, [(0, 10), (10, 111), (111, 112)]),
        (100, [(0, 10), (10, 500), (500, 510), (510, 520)]),
        (100, []), (100, [(5, 5)]), (100, [(0, 1000)]),
    ]
    for R, objs in corpus:
        cases.append((R, objs))
    for _ in range(n):
        R = r.choice([64, 64, 100, 128, 500, 1000, 4096, 4096, 65536, R_REAL])
        cases.append((R, gen_ranges(r, R)))
    for R, objs in cases:
        lines.append(f"thunk-assign 0x{R:x}" + "".join(f" 0x{s:x}:0x{e:x}" for s, e in objs))

    def nontrivial(l, a, b):
        return not a.startswith("n=1") and not a.startswith("n=0")

    dis, impl, model = ctx.differential("thunk-assign", lines, nontrivial=nontrivial)
    nb_hist = {}
    seen_known = []
    for (R, objs), l, o in zip(cases, lines, impl):
        p = parse_assign(o)
        if p:
            k = str(min(p[0], 6)) + ("+" if p[0] >= 6 else "")
            nb_hist[k] = nb_hist.get(k, 0) + 1
        ctx.count("thunk-assign.range", str(R))
        ctx.count("thunk-assign.objects", str(min(len(objs), 60) // 10 * 10) + "+")
        if any(e - s > R for s, e in objs):
            ctx.count("thunk-assign.shape", "has-object-larger-than-range")
        bad = oracle_assign(R, objs, o, r)
        if bad and bad.startswith("known:"):
            ctx.count("thunk-assign.shape", "pending-block-placed-out-of-range")
            if not seen_known:
                seen_known.append(1)
                ctx.cov["impl_oracle_failures"] += 1
                ctx.violation("thunk-block-placed-out-of-range", f"assign_thunk_blocks: {bad[7:]}",
                              {"request": l, "observed": o, "how": "echo '<request>' | /verif/.target/wvh/debug/wvh"})
        elif bad:
            ctx.cov["impl_oracle_failures"] += 1
            cat = ("cover" if "is not within" in bad or "straddles" in bad else "spacing" if "closer than" in bad else "final-layout" if bad.startswith("final layout") else "structure")
            ctx.violation("assign:" + cat, f"assign_thunk_blocks: {bad}",
                          {"request": l, "observed": o, "how": "echo '<request>' | /verif/.target/wvh/debug/wvh"})
    for k, v in nb_hist.items():
        ctx.count("thunk-assign.num_blocks", k, v)


# ----------------------------------------------------------------------------- thunk-write
def sx(v, bits):
    v &= (1 << bits) - 1
    return v - (1 << bits) if v >> (bits - 1) else v


def decode_thunk(words, addr):
    """adrp x16, P; add x16, x16, #lo; br x16  ->  branch target, or None."""
    a, b, c = words
    if a & 0x9F00001F != 0x90000010 or b & 0xFFC003FF != 0x91000210 or c != 0xD61F0200:
        return None
    imm = sx((((a >> 5) & 0x7FFFF) << 2) | ((a >> 29) & 3), 21)
    return ((addr & ~0xFFF) + (imm << 12) + ((b >> 10) & 0xFFF)) & runner.MASK64


def run_write(ctx):
    r = ctx.rng.fork()
    n = 1500 if ctx.quick else 30000
    pairs = []
    for d in (0, 4, 0xFFC, 0x1000, (1 << 27), (1 << 31), (1 << 32) - 0x1000, (1 << 32) - 4, (1 << 32), (1 << 32) + 0x1000, (1 << 33)):
        for base in (0x400000, 0x0FFC, 0x7FFFF000, 0x100000000, 0xFFFFFFFF00000FFC):
            pairs.append((base, (base + d) & runner.MASK64))
            pairs.append(((base + d) & runner.MASK64, base))
    for _ in range(n):
        th = (r.u64_interesting() & ~3) & runner.MASK64
        k = r.below(4)
        if k == 0:
            tg = r.u64_interesting() & ~3
        else:
            d = r.below(1 << r.choice([12, 20, 28, 32, 33])) & ~3
            tg = (th + d if r.chance(1, 2) else th - d) & runner.MASK64
        pairs.append((th, tg))
    lines = [f"thunk-write 0x{a:x} 0x{b:x}" for a, b in pairs]
    dis, impl, model = ctx.differential("thunk-write", lines)
    for (th, tg), l, o in zip(pairs, lines, impl):
        pd = sx((tg & ~0xFFF) - (th & ~0xFFF), 64)
        inr = -(1 << 32) <= pd < (1 << 32)
        ctx.count("thunk-write.page_diff", "in-adrp-range" if inr else "out-of-adrp-range")
        if len(o) != 24:
            ctx.violation("thunk-write:shape", f"write_thunk did not return 12 bytes: {o}", {"request": l, "observed": o})
            continue
        words = struct.unpack("<III", bytes.fromhex(o))
        got = decode_thunk(words, th)
        if got is None:
            ctx.cov["impl_oracle_failures"] += 1
            ctx.violation("thunk-write:opcode", f"write_thunk output is not adrp x16/add x16,x16/br x16: {o}", {"request": l, "observed": o})
        elif inr and got != tg:
            ctx.cov["impl_oracle_failures"] += 1
            ctx.violation("thunk-write:target", f"thunk at 0x{th:x} for 0x{tg:x} jumps to 0x{got:x}", {"request": l, "observed": o})


# ----------------------------------------------------------------------------- whole links
class Sc:
    """A generated AArch64 program: objects -> sections -> items.
    items: ("f", name) function label; ("c", label, op, target, addend) branch; ("s", nbytes) padding."""

    def __init__(self, name, objs, mode="exe", ext=(), expect=None, note=""):
        self.name, self.objs, self.mode, self.ext, self.expect, self.note = name, objs, mode, list(ext), expect, note

    def params(self):
        return {"name": self.name, "mode": self.mode, "ext": self.ext, "note": self.note,
                "objects": [{"name": o["name"], "sections": [{"name": s[0], "align": s[1], "items": _compress(s[2])} for s in o["secs"]]} for o in self.objs]}


def _compress(items):
    if len(items) > 40:
        return items[:20] + [("...", len(items) - 40)] + items[-20:]
    return items


def render_obj(o):
    out = []
    for (sname, align, items) in o["secs"]:
        out.append(f'  .section {sname},"ax",%progbits\n  .p2align {align}\n')
        for it in items:
            if it[0] == "f":
                out.append(f"  .globl {it[1]}\n  .type {it[1]},%function\n{it[1]}:\n")
            elif it[0] == "c":
                _, lab, op, tgt, add = it
                out.append(f"  .globl {lab}\n{lab}:\n  {op} {tgt}{'+' + str(add) if add else ''}\n")
            elif it[0] == "s":
                out.append(f"  .space {it[1]}\n")
            elif it[0] == "ret":
                out.append("  ret\n")
            elif it[0] == "ifunc":
                out.append(f"  .globl {it[1]}\n  .type {it[1]},%gnu_indirect_function\n{it[1]}:\n  adrp x0, {it[2]}\n  add x0, x0, :lo12:{it[2]}\n  ret\n")
    return "".join(out)


def sites_of(sc):
    res = []
    for o in sc.objs:
        for (_, _, items) in o["secs"]:
            for it in items:
                if it[0] == "c":
                    res.append((it[1], it[2], it[3], it[4]))
    return res


class Image:
    """Static view of a linked AArch64 output."""

    def __init__(self, path):
        self.e = elfread.Elf(path)
        self.addr = {}
        self.by_addr = {}
        for y in self.e.symtab():
            if y.shndx != 0 and y.name and y.type in (0, 2, 10):
                self.addr.setdefault(y.name, y.value)
                self.by_addr.setdefault(y.value, []).append(y.name)
        dyn = self.e.dynsym()
        self.slot = {}
        for (_sec, off, typ, symidx, addend) in self.e.all_dyn_relas():
            if typ in (1025, 1026, 257) and symidx < len(dyn) and symidx != 0:   # GLOB_DAT, JUMP_SLOT, ABS64
                self.slot[off] = dyn[symidx].name
            elif typ == 1032:                                                       # IRELATIVE: addend = resolver
                self.slot[off] = ("irelative", addend)

    def u32(self, va):
        return struct.unpack("<I", self.e.read(va, 4))[0]

    def follow(self, pc, want, max_insns=24):
        """Emulate adrp/add/ldr/br stubs starting at pc until control reaches `want` or something that is not a stub.
        Returns ("addr", a) or ("dyn", symbol-name) or ("bad", why)."""
        regs = {}
        hops = 0
        for _ in range(max_insns):
            if pc == want:
                return ("addr", pc, hops)
            w = self.u32(pc)
            rd, rn = w & 31, (w >> 5) & 31
            if w & 0x9F000000 == 0x90000000:                       # adrp
                imm = sx((((w >> 5) & 0x7FFFF) << 2) | ((w >> 29) & 3), 21)
                regs[rd] = ((pc & ~0xFFF) + (imm << 12)) & runner.MASK64
            elif w & 0xFFC00000 == 0x91000000 and rn in regs:      # add xd, xn, #imm12
                regs[rd] = (regs[rn] + ((w >> 10) & 0xFFF)) & runner.MASK64
            elif w & 0xFFC00000 == 0xF9400000 and rn in regs:      # ldr xt, [xn, #imm12*8]
                a = regs[rn] + ((w >> 10) & 0xFFF) * 8
                if a in self.slot:
                    s = self.slot[a]
                    if isinstance(s, tuple):
                        return ("ifunc", s[1], hops)
                    return ("dyn", s, hops)
                regs[rd] = self.e.u64(a)
            elif w & 0xFF000000 == 0x58000000:                     # ldr xt, literal
                a = pc + sx((w >> 5) & 0x7FFFF, 19) * 4
                if a in self.slot:
                    s = self.slot[a]
                    return ("dyn", s, hops) if not isinstance(s, tuple) else ("ifunc", s[1], hops)
                regs[rd] = self.e.u64(a)
            elif w & 0xFFFFFC1F == 0xD61F0000 and rn in regs:      # br xn
                pc = regs[rn]
                regs = {}
                hops += 1
                continue
            elif w in (0xD503201F, 0xD503245F, 0xD503241F, 0xD50324DF, 0xD503249F):   # nop / bti
                pass
            else:
                return ("addr", pc, hops)
            pc += 4
        return ("bad", "stub too long", hops)

    def resolve_site(self, label, op, want):
        a = self.addr.get(label)
        if a is None:
            return ("bad", f"call-site label {label} missing", 0)
        w = self.u32(a)
        opc = 0x94000000 if op == "bl" else 0x14000000
        if w & 0xFC000000 != opc:
            return ("bad", f"instruction at {label} is 0x{w:08x}, not {op}", 0)
        tgt = (a + sx(w & 0x3FFFFFF, 26) * 4) & runner.MASK64
        return self.follow(tgt, want)


def check_image(img, sc, lib_syms):
    """-> {label: (kind, value)} final destinations, list of failures.  In a -shared output a call to a
    default-visibility global may legitimately go through the PLT (JUMP_SLOT naming the callee)."""
    res, bad = {}, []
    for (label, op, tgt, add) in sites_of(sc):
        if tgt in lib_syms:
            want = None
        else:
            ta = img.addr.get(tgt)
            if ta is None:
                bad.append((label, f"callee {tgt} has no address in the output"))
                continue
            want = ta + add
        r = img.resolve_site(label, op, want)
        res[label] = r
        if tgt in lib_syms:
            ok = r[0] == "dyn" and r[1] == tgt
        elif r[0] == "ifunc":
            ok = False
        else:
            ok = (r[0] == "addr" and r[1] == want) or (sc.mode == "shared" and add == 0 and r[0] == "dyn" and r[1] == tgt)
        if not ok:
            desc = r[1] if r[0] != "addr" else "0x%x = %s" % (r[1], "/".join(img.by_addr.get(r[1], ["?"])[:3]))
            bad.append((label, f"{op} {tgt}{'+%d' % add if add else ''} at {label} ends at {r[0]}:{desc} (hops={r[2]}), intended "
                        + (f"0x{want:x}" if want is not None else f"dynamic {tgt}")))
    return res, bad


def build_and_link(ctx, sc):
    d = os.path.join(ctx.scratch, "c11-" + sc.name)
    os.makedirs(d, exist_ok=True)
    objs = []
    for o in sc.objs:
        objs.append(linkutil.asm_obj(d, o["name"], render_obj(o), target="aarch64-linux-gnu"))
        os.unlink(os.path.join(d, o["name"] + ".s"))
    extra = []
    if sc.ext:
        lib_s = "".join(f"  .text\n  .globl {x}\n  .type {x},%function\n{x}:\n  ret\n" for x in sc.ext)
        lo = linkutil.asm_obj(d, "libext", lib_s, target="aarch64-linux-gnu")
        so = os.path.join(d, "libext.so")
        rc, o_, e_ = linkutil.run([linkutil.LLD, "-shared", "-o", so, lo, "-soname", "libext.so"])
        if rc != 0:
            raise RuntimeError("lld could not build libext.so: " + e_)
        extra = [so]
    flags = {"exe": [], "pie": ["-pie"], "shared": ["-shared"]}[sc.mode]
    common = flags + ["--no-gc-sections"] + objs + extra
    out = {}
    for lk in ("wild", "lld"):
        p = os.path.join(d, "out." + lk)
        args = (["-m", "aarch64linux"] if lk == "wild" else []) + ["-o", p] + common
        rc, so_, se = linkutil.link(lk, args, timeout=900, env={"WILD_VALIDATE_OUTPUT": "0"} if lk == "wild" else None)
        out[lk] = (rc, p, (se + so_)[-1500:])
    for o in objs:
        os.unlink(o)
    return d, out


def run_scenario(ctx, sc):
    ctx.count("link.scenario", sc.name)
    d, out = build_and_link(ctx, sc)
    lib = set(sc.ext)
    rcw, pw, ew = out["wild"]
    rcl, pl, el = out["lld"]
    replay = {"scenario": sc.params(), "how": "objects: clang --target=aarch64-linux-gnu -c; wild -m aarch64linux --no-gc-sections [-pie|-shared] objs...; ld.lld same"}
    sites = sites_of(sc)
    ctx.count("link.sites", "total", len(sites))
    try:
        lld_bad = None
        if rcl == 0:
            il = Image(pl)
            resl, lld_bad = check_image(il, sc, lib)
            del il
            os.unlink(pl)
        else:
            ctx.count("link.lld", "failed")
        if rcw != 0:
            ctx.count("link.wild", "error")
            oor = "outside of bounds" in ew or "out of range" in ew
            if rcl == 0 and not lld_bad:
                key = sc.expect if (sc.expect and oor) else f"link-error:{sc.name}"
                ctx.cov["impl_oracle_failures"] += 1
                ctx.violation(key, f"wild fails to link an AArch64 program that ld.lld links with every branch reaching its callee ({sc.name}): "
                              + ew.strip().split("\n")[-1][:300], dict(replay, wild_stderr=ew))
            return
        iw = Image(pw)
        resw, wbad = check_image(iw, sc, lib)
        nthunk = sum(1 for v in resw.values() if v[2] > 0)
        ctx.count("link.branches", "direct", sum(1 for v in resw.values() if v[2] == 0 and v[0] == "addr"))
        ctx.count("link.branches", "through-thunk", nthunk)
        ctx.count("link.branches", "plt", sum(1 for v in resw.values() if v[0] == "dyn"))
        for lab, why in wbad[:20]:
            site = next(s for s in sites if s[0] == lab)
            key = "thunk-drops-addend" if (site[3] != 0 and resw.get(lab, ("", 0, 0))[2] > 0) else f"branch:{sc.name}:{lab}"
            ctx.cov["impl_oracle_failures"] += 1
            ctx.violation(key, "AArch64 branch does not reach its callee: " + why + (" [ld.lld reaches it]" if rcl == 0 and not any(l == lab for l, _ in (lld_bad or [])) else ""),
                          dict(replay, site=lab))
        if sc.expect and not wbad and sc.expect not in ("thunk-drops-addend",):
            ctx.count("link.expected-finding-not-reproduced", sc.expect)
        for lab, _, _, _ in sites:
            ctx.note_case(("site", sc.name, lab), True)
        ctx.sample({"scenario": sc.name, "sites": len(sites), "through_thunk": nthunk, "lld_failures": len(lld_bad or [])})
        if lld_bad:
            ctx.count("link.lld", "oracle-itself-misses", len(lld_bad))
        del iw
    finally:
        for p in (pw, pl):
            if os.path.exists(p):
                os.unlink(p)


def _lab(counter):
    counter[0] += 1
    return f"cs{counter[0]}"


def simple_obj(name, size, calls, cnt, tail_calls=(), sec=".text", align=2, fname=None):
    """function f_<name> at the start with `calls`, padding, optional second function g_<name> near the end."""
    items = [("f", fname or f"f_{name}")]
    used = 0
    for (op, tgt, add) in calls:
        items.append(("c", _lab(cnt), op, tgt, add))
        used += 4
    items.append(("ret",))
    used += 4
    tail = 0
    if tail_calls:
        tail = 4 * len(tail_calls) + 4
    pad = size - used - tail
    if pad > 0:
        items.append(("s", pad & ~3))
    if tail_calls:
        items.append(("f", f"g_{name}"))
        for (op, tgt, add) in tail_calls:
            items.append(("c", _lab(cnt), op, tgt, add))
        items.append(("ret",))
    return {"name": name, "secs": [(sec, align, items)]}


def scenario_basic(r, mode="exe", with_ext=True, with_addend=False, name="basic"):
    """~150 MiB of text: callers/callees on both sides, a non-primary (64-aligned) section, PLT calls."""
    cnt = [0]
    ext = ["ext_a", "ext_b"] if with_ext else []
    s1 = (56 + r.below(8)) * MiB + 4 * r.below(1000)
    s3 = (70 + r.below(8)) * MiB + 4 * r.below(1000)
    far = [("bl", "f_o4", 0), ("b", "g_o3", 0), ("bl", "f_o5", 0)]
    o0 = simple_obj("o0", 64, [("bl", "f_o1", 0), ("bl", "hot0", 0)] + far + [(("bl", x, 0)) for x in ext], cnt, fname="_start")
    o1 = simple_obj("o1", s1, [("bl", "_start", 0), ("bl", "g_o3", 0), ("b", "f_o5", 0)] + [("bl", x, 0) for x in ext[:1]], cnt,
                    tail_calls=[("bl", "f_o4", 0), ("bl", "_start", 0), ("bl", "hot0", 0)])
    # o2: a non-primary text section (alignment 64) calling far primary code, plus a small primary part
    o2 = {"name": "o2", "secs": [(".text.hot", 6, [("f", "hot0"), ("c", _lab(cnt), "bl", "f_o5", 0), ("c", _lab(cnt), "bl", "g_o3", 0),
                                                   ("c", _lab(cnt), "b", "f_o1", 0), ("ret",), ("s", 4 * r.range(1, 300))]),
                                 (".text", 2, [("f", "f_o2"), ("c", _lab(cnt), "bl", "hot0", 0), ("ret",), ("s", 4 * r.range(1, 5000))])]}
    o3 = simple_obj("o3", s3, [("bl", "_start", 0), ("bl", "f_o5", 0), ("bl", "f_o2", 0)], cnt,
                    tail_calls=[("bl", "_start", 0), ("bl", "f_o1", 0), ("bl", "hot0", 0), ("b", "f_o2", 0)] + [("bl", x, 0) for x in ext])
    o4 = simple_obj("o4", 4 * r.range(16, 4000), [("bl", "_start", 0), ("bl", "f_o1", 0), ("bl", "g_o1", 0), ("bl", "hot0", 0)] + [("b", x, 0) for x in ext[1:]], cnt)
    o5calls = [("bl", "_start", 0), ("bl", "f_o2", 0), ("bl", "g_o3", 0)]
    if with_addend:
        o5calls += [("bl", "f_o1", 4), ("b", "_start", 8), ("bl", "g_o3", 4)]
    o5 = simple_obj("o5", 4 * r.range(16, 4000), o5calls, cnt)
    return Sc(name, [o0, o1, o2, o3, o4, o5], mode=mode, ext=ext, expect="thunk-drops-addend" if with_addend else None)


def scenario_regression(r):
    """Known finding thunk-block-placed-out-of-range on the real binary: no object above 125 MiB, the pending group's block
    lands 132 MiB after the first object of the group."""
    cnt = [0]
    o0 = simple_obj("o0", 16, [("bl", "f_o1", 0), ("bl", "f_o5", 0)], cnt, fname="_start")
    o1 = simple_obj("o1", 125 * MiB, [("bl", "f_o5", 0)], cnt, tail_calls=[("bl", "f_o5", 0), ("bl", "_start", 0)])
    o2 = simple_obj("o2", 2 * MiB, [("bl", "f_o5", 0), ("bl", "_start", 0)], cnt)
    o3 = simple_obj("o3", 100 * MiB, [("bl", "f_o5", 0), ("bl", "_start", 0)], cnt, tail_calls=[("bl", "_start", 0), ("bl", "f_o2", 0)])
    o4 = simple_obj("o4", 30 * MiB, [("bl", "_start", 0), ("bl", "f_o2", 0)], cnt, tail_calls=[("bl", "_start", 0), ("bl", "f_o2", 0)])
    o5 = simple_obj("o5", 1 * MiB, [("bl", "f_o2", 0), ("bl", "_start", 0), ("bl", "f_o1", 0)], cnt)
    return Sc("regression-block-placement", [o0, o1, o2, o3, o4, o5], expect="thunk-block-placed-out-of-range")


def scenario_many_small(r):
    """Many 1-9 MiB objects (several clusters, ~300 MiB), random calls across."""
    cnt = [0]
    n = 60
    names = [f"m{i}" for i in range(n)]
    objs = []
    for i, nm in enumerate(names):
        calls = [(r.choice(["bl", "b"]), "f_" + r.choice(names), 0) for _ in range(4)] + [("bl", "_start", 0)]
        tails = [("bl", "f_" + r.choice(names), 0) for _ in range(3)]
        o = simple_obj(nm, r.range(1, 9) * MiB + 4 * r.below(64), calls, cnt, tail_calls=tails)
        objs.append(o)
    o0 = simple_obj("o0", 32, [("bl", "f_" + nm, 0) for nm in names[::7]], cnt, fname="_start")
    return Sc("many-small", [o0] + objs)


def scenario_big_object(r):
    """A single object with 130 MiB of text in ONE section calling a far function: wild's per-object thunk blocks cannot
    serve it (known finding object-larger-than-branch-range); lld places a thunk in front of the section."""
    cnt = [0]
    o0 = simple_obj("o0", 130 * MiB, [("bl", "f_far", 0)], cnt, fname="_start")
    o1 = simple_obj("far", 64, [("bl", "_start", 0)], cnt)
    return Sc("big-object", [o0, o1], expect="object-larger-than-branch-range")


def scenario_thunk_overflow(r):
    """The excluded point of the theorems: > 2 MiB of thunks in one block.  270000 distinct far callees are called from
    the end of a cluster whose thunk block sits ~126 MiB before: call i is 126 MiB + 8*(270000 - i) bytes after thunk i,
    i.e. beyond 128 MiB for the first calls.  No object is larger than 126 MiB."""
    cnt = [0]
    k = 270000
    o0 = simple_obj("o0", 16, [("bl", "f_o1", 0)], cnt, fname="_start")
    callers = [("bl", f"t{i}", 0) for i in range(0, k)]
    o1 = simple_obj("o1", 126 * MiB - 64, [("bl", "_start", 0)], cnt, tail_calls=callers)
    o2 = simple_obj("o2", 70 * MiB, [], cnt)
    o2b = simple_obj("o2b", 70 * MiB, [], cnt)
    items = []
    for i in range(k):
        items += [("f", f"t{i}"), ("ret",)]
    o3 = {"name": "o3", "secs": [(".text", 2, items)]}
    return Sc("thunk-block-overflow", [o0, o1, o2, o2b, o3], expect="thunk-block-overflow")


def run_links(ctx):
    r = ctx.rng.fork()
    scs = [scenario_basic(r, with_addend=True, name="basic-exe")]
    if not ctx.quick:
        scs += [scenario_basic(r, mode="pie", name="basic-pie"), scenario_basic(r, mode="shared", name="basic-shared"),
                scenario_regression(r), scenario_many_small(r), scenario_big_object(r), scenario_thunk_overflow(r)]
    only = os.environ.get("C11_SCENARIOS")
    if only:
        allsc = {"basic-exe": lambda: scenario_basic(r, with_addend=True, name="basic-exe"), "basic-pie": lambda: scenario_basic(r, mode="pie", name="basic-pie"),
                 "basic-shared": lambda: scenario_basic(r, mode="shared", name="basic-shared"), "regression": lambda: scenario_regression(r),
                 "many-small": lambda: scenario_many_small(r), "big-object": lambda: scenario_big_object(r), "thunk-overflow": lambda: scenario_thunk_overflow(r)}
        scs = [allsc[x]() for x in only.split(",") if x in allsc]
    for sc in scs:
        try:
            run_scenario(ctx, sc)
        except RuntimeError as ex:
            ctx.broken.append(f"whole-link scenario {sc.name} could not be built: {ex}")


def run(ctx):
    check_source(ctx)
    run_assign(ctx)
    run_write(ctx)
    if os.environ.get("C11_NO_LINKS") != "1":
        run_links(ctx)
    # known findings must not hide broken obligations (the runner only reports `broken` when nothing else is reported)
    if ctx.broken and ctx.violations:
        import hashlib
        ctx.violation("broken:" + hashlib.sha256("|".join(ctx.broken).encode()).hexdigest()[:12],
                      "proof obligation or correspondence no longer checks", {"broken": list(ctx.broken)}, found_input=False)
