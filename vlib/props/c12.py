"""C12 - Relocation overflow is reported exactly when a value doesn't fit."""
import os

from vlib import c12_probe
from vlib import c12c13_tables
from vlib import runner
from vlib.props.c13 import surface_broken

NEEDS_WILD = True
LEAN_MODULES = ["WildModel.Props.C12"]
THEOREMS = ["Wild.C12." + t for t in [
    "rowOk_sound", "accept_iff", "rows_ok", "knownBad_exact", "c12_accept_iff", "c12_exact_iff",
    "x86_8_signed_only_witness", "x86_16_signed_only_witness", "x86_got32_unsigned_witness", "nocheck_i64max_witness",
    "rows_trunc_ok", "leValue_leBytes", "c12_no_truncation", "c12_no_truncation_8"]]
LEVEL = "proof"
TRUSTED = [
    "lean/WildModel/Gen/RelocTables.lean: regenerated on every run by `wvh dump-reloc-tables` (enumerates relocation_from_raw / "
    "relocation_type_from_raw of the 4 architectures over every r_type in 0..65536; thorough: 0..2^24) + translators/gen_reloc_tables.py",
    "hand-written model lean/WildModel/Model/RelocRange.lean of AllowedRange::{from_bit_size,contains}, RelocationKindInfo::{verify,write_to_buffer}; "
    "tied by the correspondences reloc-write / range-from-bits / range-contains (wvh vs wmdriver, rows looked up in the regenerated table)",
    "psABI side `spec` in lean/WildModel/Props/C12.lean (x86-64 psABI, AAELF64, RISC-V psABI) restricted to the GNU ld / ld.lld agreement region; "
    "validated on every run by linking one-relocation programs with GNU ld 2.40 (x86-64) and ld.lld 14 (x86-64, AArch64, RISC-V) at the boundaries",
    "RISC-V: only ld.lld is available as a reference (BFD behaviour taken from its howto table by reading); LoongArch64: no reference linker, no row in scope",
    "verify() is private: observed through write_to_buffer's error class",
]
RULE = ("every regenerated row x {min-1,min,min+1,max-1,max,max+1, 0, +-1, +-alignment, i64::MIN/MAX, the must/may interval ends of the spec} "
        "+ random 64-bit values, buffer lengths 16 and (byte rows) size-1; non-trivial unless the row is R_*_NONE; distinct by request text. "
        "The implementation's verdict is also compared with an independent Python copy of the psABI classes, accepted byte-row writes are decoded back, "
        "and the real wild / ld / ld.lld binaries are run on one-relocation programs at the boundaries.")
ASSUMPTIONS = ["rows outside `spec` (TLS/GOT forms, thunkable branches, LoongArch64, unchecked RISC-V data words) are covered by the no-truncation theorem and the model correspondence only"]

M64 = (1 << 64) - 1
I64MIN, I64MAX = -(1 << 63), (1 << 63) - 1


def s64(v):
    v &= M64
    return v - (1 << 64) if v >> 63 else v


def S(w):
    return (-(1 << (w - 1)), 1 << (w - 1))


def U(w):
    return (0, 1 << w)


def E(w):
    return (-(1 << (w - 1)), 1 << w)


NC = (-(1 << 63), 1 << 63)
# independent Python statement of the psABI classes: (arch, rtype) -> (must interval, may interval, align or None)
PY_SPEC = {}
for t, c in {1: NC, 2: S(32), 3: S(32), 4: S(32), 9: S(32), 10: U(32), 11: S(32), 15: S(8), 24: NC, 26: S(32), 41: S(32), 42: S(32),
             19: S(32), 20: S(32), 21: S(32), 22: S(32), 23: S(32), 17: NC, 25: NC, 27: NC, 29: NC, 31: NC, 34: S(32)}.items():
    PY_SPEC[("x86_64", t)] = (c, c, 1)
PY_SPEC[("x86_64", 12)] = (E(16), (-(1 << 16), 1 << 16), 1)
PY_SPEC[("x86_64", 14)] = (E(8), (-(1 << 8), 1 << 8), 1)
PY_SPEC[("x86_64", 13)] = (S(16), (-(1 << 16), 1 << 16), 1)
for t, c in {257: NC, 258: E(32), 259: E(16), 260: NC, 261: E(32), 262: E(16), 263: U(16), 265: U(32), 267: U(48), 270: S(17), 271: S(33),
             272: S(49), 274: S(21), 275: S(33), 314: S(32), 315: S(32)}.items():
    PY_SPEC[("aarch64", t)] = (c, c, 1)
for t, a in {284: 2, 285: 4, 286: 8, 299: 16}.items():
    PY_SPEC[("aarch64", t)] = (NC, NC, a)
HI20 = (-(1 << 31) - 0x800, (1 << 31) - 0x800)
for t in (18, 19, 20, 21, 22, 23, 26, 29):
    PY_SPEC[("riscv64", t)] = (HI20, HI20, 1)
PY_SPEC[("riscv64", 2)] = (NC, NC, 1)
for t, w in {16: 13, 17: 21, 44: 9, 45: 12}.items():
    PY_SPEC[("riscv64", t)] = ((S(w)[0], S(w)[1] - 1), S(w), 2)

WRAP_KINDS = {"AbsoluteAddition", "AbsoluteSubtraction", "AbsoluteSet", "AbsoluteSetWord6", "AbsoluteAdditionWord6", "AbsoluteSubtractionWord6"}


def regenerate(ctx):
    c12c13_tables.regenerate(ctx)
    if not ctx.quick:
        # thorough: every r_type below 2^24 outside the listed rows must answer None
        text = c12c13_tables.dump(1 << 24)
        rows = c12c13_tables.parse(text)
        if len(rows) != len(ctx.tables):
            ctx.broken.append(f"table enumeration: {len(rows)} rows below 2^24 but {len(ctx.tables)} below 65536")


def row_values(ctx, row):
    r = ctx.rng
    vs = set()
    al = row["alignment"]
    for b in (row["min"], row["max"], 0, I64MIN, I64MAX, 1 << 31, 1 << 32, -(1 << 31), (1 << 31) - 0x800, -(1 << 31) - 0x800):
        for d in (-al - 1, -al, -1, 0, 1, al, al + 1):
            vs.add((b + d) & M64)
    sp = PY_SPEC.get((row["arch"], row["rtype"]))
    if sp:
        for iv in sp[:2]:
            for b in iv:
                for d in (-al, -1, 0, 1, al):
                    vs.add((b + d) & M64)
    n = 12 if ctx.quick else 400
    for _ in range(n):
        vs.add(r.u64_interesting())
        lo, hi = max(row["min"], I64MIN), min(row["max"], I64MAX)
        vs.add((lo + r.below(hi - lo + 1)) // al * al & M64)
    return sorted(vs)


def gen(ctx):
    lines = []
    for row in ctx.tables:
        for v in row_values(ctx, row):
            lines.append(f"reloc-write {row['arch']} {row['rtype']} 0x{v:x} 16")
        if row["bytes"]:
            lines.append(f"reloc-write {row['arch']} {row['rtype']} 0x0 {row['bytes'] - 1}")
            lines.append(f"reloc-write {row['arch']} {row['rtype']} 0x0 {row['bytes']}")
    for arch in ("x86_64", "aarch64", "riscv64", "loongarch64"):
        for t in (6, 7, 8, 100, 1000, 65535):
            lines.append(f"reloc-write {arch} {t} 0x1 16")
    for n in range(0, 70):
        lines.append(f"range-from-bits {n} 0")
        lines.append(f"range-from-bits {n} 1")
    r = ctx.rng
    for _ in range(300 if ctx.quick else 20000):
        a, b_, v = s64(r.u64_interesting()), s64(r.u64_interesting()), s64(r.u64_interesting())
        lines.append(f"range-contains {a} {b_} {v}")
        lines.append(f"range-contains {a} {b_} {b_ - 1 if b_ > I64MIN else b_}")
    lines.append(f"range-contains {I64MIN} {I64MAX} {I64MAX}")
    return lines


def oracle(ctx, lines, outs):
    rows = {(r["arch"], r["rtype"]): r for r in ctx.tables}
    bad = 0
    for l, o in zip(lines, outs):
        t = l.split()
        if t[0] != "reloc-write" or t[4] != "16":
            continue
        key = (t[1], int(t[2]))
        row = rows.get(key)
        if row is None:
            continue
        v = s64(int(t[3], 16))
        accepted = o.startswith("ok")
        rep = {"arch": t[1], "r_type": key[1], "name": row["name"], "value": v, "request": l, "observed": o,
               "how": f"echo '{l}' | /verif/.target/wvh/debug/wvh"}
        sp = PY_SPEC.get(key)
        if sp:
            must, may, al = sp
            aligned = (v % al) == 0
            if aligned and must[0] <= v < must[1] and not accepted:
                bad += 1
                ctx.violation(f"{t[1]}:{key[1]}:range", f"{row['name']}: value {v} fits the psABI field (GNU ld and lld accept it) but wild reports {o}", rep)
            if accepted and not (may[0] <= v < may[1] and aligned):
                bad += 1
                ctx.violation(f"{t[1]}:{key[1]}:range", f"{row['name']}: value {v} does not fit the psABI field (reference linkers reject it) but wild accepts and writes {o}", rep)
        # no silent truncation on byte rows
        n = row["bytes"]
        if accepted and n and row["kind"] not in WRAP_KINDS and not row["kind"].startswith("PairSubtractionULEB128") and key != ("loongarch64", 8):
            data = bytes.fromhex(o.split()[1])[:n]
            m = int.from_bytes(data, "little")
            sm = m - (1 << (8 * n)) if m >> (8 * n - 1) else m
            if v not in (m, sm):
                bad += 1
                ctx.violation(f"{t[1]}:{key[1]}:truncation", f"{row['name']}: accepted value {v} was silently truncated to {n} bytes ({data.hex()})", rep)
    return bad


# boundary grid per probe (values relative to the class ends)
def grid(key):
    sp = PY_SPEC.get(key)
    vs = set()
    if sp:
        for iv in sp[:2]:
            for b in iv:
                for d in (-sp[2], 0, sp[2]) if sp[2] > 1 else (-1, 0, 1):
                    x = b + d
                    if I64MIN <= x <= I64MAX:
                        vs.add(x)
        vs.update([0, sp[2], -sp[2]])
    return sorted(vs)


def probe_linkers(ctx):
    """The real binaries: wild (hooked build of the working tree), GNU ld, ld.lld. Validates `spec` (ld/lld at the class ends) and
    reports the first value where wild's verdict differs from BOTH references (or the only one available)."""
    pr = c12_probe.Prober(ctx.scratch, runner.WILD)
    keys = [k for k in c12_probe.PROBES if k in PY_SPEC]
    if ctx.quick:
        keys = [k for k in keys if k[0] == "x86_64" or k in (("aarch64", 258), ("aarch64", 259), ("riscv64", 18), ("riscv64", 26), ("riscv64", 2), ("riscv64", 16))]
    for key in keys:
        must, may, al = PY_SPEC[key]
        reported = False
        for v in grid(key):
            res = pr.run(key, v)
            if res is None:
                ctx.count("probe", "assembler-failed")
                break
            if any(a is None for a, _, _ in res.values()):
                ctx.count("probe", "layout-failed")
                break
            ctx.note_case(("probe", key, v))
            ctx.count("probe", f"{key[0]}:{key[1]}")
            refs = {k: x for k, x in res.items() if k != "wild"}
            ref_ok = [x[0] for x in refs.values()]
            # spec validation: inside `must` every reference accepts, outside `may` every reference rejects
            aligned = v % al == 0
            if aligned and must[0] <= v < must[1] and not all(ref_ok):
                ctx.broken.append(f"spec validation: {key} value {v} is in `must` but a reference linker rejects it: {refs}")
            if not (may[0] <= v < may[1]) and any(ref_ok):
                ctx.broken.append(f"spec validation: {key} value {v} is outside `may` but a reference linker accepts it: {refs}")
            w_ok, w_data, w_msg = res["wild"]
            if all(ref_ok) != any(ref_ok):
                ctx.count("probe", "references-disagree")
                continue
            if w_ok != ref_ok[0] and not reported:
                reported = True
                ctx.cov["impl_oracle_failures"] += 1
                ctx.violation(f"{key[0]}:{key[1]}:range",
                              f"r_type {key[1]} ({key[0]}), value {v}: wild {'accepts' if w_ok else 'rejects'}, "
                              f"{' and '.join(refs)} {'accept' if ref_ok[0] else 'reject'}",
                              {"probe": c12_probe.PROBES[key][1], "value": v, "results": res,
                               "how": "assemble `_start: nop; fld: <probe>` and link with --defsym=big=<value (+ address of fld if pc-relative)>"})
            elif w_ok and ref_ok[0]:
                datas = {x[1] for x in refs.values()}
                if w_data not in datas and not reported and key != ("riscv64", 18):
                    reported = True
                    ctx.cov["impl_oracle_failures"] += 1
                    ctx.violation(f"{key[0]}:{key[1]}:bytes", f"r_type {key[1]} ({key[0]}), value {v}: wild wrote {w_data}, references wrote {sorted(datas)}",
                                  {"probe": c12_probe.PROBES[key][1], "value": v, "results": res})
    ctx.count("probe", "links", pr.n)
    ctx.sample({"linker_probe": "x86_64 R_X86_64_8 value 255", "results": pr.run(("x86_64", 14), 255)})


def run(ctx):
    lines = gen(ctx)
    for l in lines:
        ctx.count("op", l.split()[0])

    def nontrivial(l, a, b_):
        return not (l.startswith("reloc-write") and a == "ok -")

    dis, impl, model = ctx.differential("reloc", lines, nontrivial=nontrivial)
    ctx.count("verdict", "ok", sum(1 for x in impl if x.startswith("ok")))
    ctx.count("verdict", "err:range", sum(1 for x in impl if x == "err:range"))
    ctx.count("verdict", "err:align", sum(1 for x in impl if x == "err:align"))
    ctx.cov["impl_oracle_failures"] += oracle(ctx, lines, impl)
    if f"range-contains {I64MIN} {I64MAX} {I64MAX}" in lines:
        i = lines.index(f"range-contains {I64MIN} {I64MAX} {I64MAX}")
        if impl[i] != "1":
            ctx.violation("nocheck:i64max", "AllowedRange::no_check() rejects i64::MAX", {"request": lines[i], "observed": impl[i]})
    probe_linkers(ctx)
    surface_broken(ctx, "C12")
