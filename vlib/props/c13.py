"""C13 - Instruction immediate fields are encoded exactly and locally."""
import os
import subprocess

from vlib import c12c13_tables

LEAN_MODULES = ["WildModel.Props.C13"]
_A64 = ["a64_local", "a64_local_movnz", "a64_local_full_witness", "a64_indep", "a64_roundtrip", "a64_unfixed_indep_witness",
        "a64_code_mask", "a64_read", "a64_read_movnz_flag", "a64_read_movkz_ldst", "a64_read_movkz_witness"]
_RVK = ["U", "I", "S", "B", "J", "Ui", "Cb", "Cj", "Clui"]
_RV = ([f"rv_local_{k}" for k in _RVK] + [f"rv_indep_{k}" for k in _RVK]
       + [f"rv_roundtrip_{k}" for k in _RVK if k != "Ui"] + [f"rv_decode_{k}" for k in ["I", "S", "B", "J", "Cb", "Cj", "Ui_mod", "Ui"]]
       + ["rv_decode_Ui_wraps"] + [f"rv_read_{k}" for k in ["I", "S", "B", "J", "Cb", "Cj", "U", "Clui", "Ui_not_injective"]])
_LAK = ["Shift5", "Shift10", "Branch21", "Branch26", "Call36"]
_LA = ([f"la_local_{k}" for k in _LAK + ["Call30"]] + [f"la_indep_{k}" for k in _LAK + ["Call30"]] + [f"la_roundtrip_{k}" for k in _LAK]
       + ["la_unfixed_call36_witness", "la_shift10_b16_witness", "la_call30_read_write_witness"]
       + [f"la_read_{k}" for k in ["Shift5", "Shift10", "Branch21", "Branch26"]])
THEOREMS = ["Wild.C13." + t for t in _A64 + _RV + _LA + ["rows_in_range", "width_exceptions_exact"]]
LEVEL = "proof"
TRUSTED = [
    "hand-written model lean/WildModel/Model/Insn.lean of linker-utils {aarch64,riscv64,loongarch64}.rs write_to_value/read_value and bit_misc.rs, "
    "tied by the differential correspondence insn-write / insn-read (wvh vs wmdriver) on generated (kind, value, word) triples",
    "byte-wise and_from_slice/or_from_slice on little-endian slices == AND/OR on the little-endian word (the harness converts)",
    "ISA side lean/WildModel/Props/C13Spec.lean written from the Arm ARM / RISC-V unprivileged+C manuals; validated on every run against words "
    "assembled by clang 14 (--target=aarch64-linux-gnu, --target=riscv64-linux-gnu) via the driver op insn-isa",
    "LoongArch64: no assembler/disassembler in the sandbox; masks/fields are from the LoongArch reference manual's instruction formats only; "
    "Call30 (unnamed r_type 127) has no ISA statement here: only locality/independence w.r.t. the mask the code declares are proved",
    "bv_decide (LRAT-checked SAT certificates) for the bit-level facts",
    "lean/WildModel/Gen/RelocTables.lean regenerated from the working tree by wvh dump-reloc-tables + translators/gen_reloc_tables.py",
]
RULE = ("per instruction kind: words in {0, all-ones, plausible opcode templates, random} x values in {0, 1, single bits, 2^width-1, range ends, "
        "random in-range, random 64-bit} in pairs (w, w') for independence; compressed kinds exhaustively over the 16-bit word; every written "
        "word is read back (insn-read); a case is non-trivial when the value is non-zero or the word's field is non-zero; distinct by request text. "
        "Every implementation answer is also checked against an independent Python statement of locality / independence / ISA round trip.")
ASSUMPTIONS = ["MachOLow12 (Mach-O only, read_value is todo!()) is outside the property (ELF AArch64/RISC-V/LoongArch64)"]

M64 = (1 << 64) - 1


def sx(x, n):
    x &= (1 << n) - 1
    return x - (1 << n) if x >> (n - 1) else x


def b(w, i):
    return (w >> i) & 1


# ---- independent Python statement of the ISA side: (size, mask, width or None (= encoder truncates), field(w), expect(v, neg))
def _a64(mask, width, lo):
    return dict(size=4, mask=mask, width=width, field=lambda w: (w >> lo) & ((1 << width) - 1), expect=lambda v, n: v)


KINDS = {
    ("aarch64", "Adr"): dict(size=4, mask=0x60ffffe0, width=21, field=lambda w: (((w >> 5) & 0x7ffff) << 2) | ((w >> 29) & 3), expect=lambda v, n: v),
    ("aarch64", "Movkz"): _a64(0x001fffe0, 16, 5),
    ("aarch64", "Movnz"): dict(size=4, mask=0x601fffe0, width=16,
                               field=lambda w: ((w >> 5) & 0xffff) if b(w, 30) else (~(w >> 5)) & 0xffff, expect=lambda v, n: v),
    ("aarch64", "Ldr"): _a64(0x00ffffe0, 19, 5),
    ("aarch64", "Bcond"): _a64(0x00ffffe0, 19, 5),
    ("aarch64", "LdrRegister"): _a64(0x003ffc00, 12, 10),
    ("aarch64", "Add"): _a64(0x003ffc00, 12, 10),
    ("aarch64", "LdSt"): _a64(0x003ffc00, 12, 10),
    ("aarch64", "TstBr"): _a64(0x0007ffe0, 14, 5),
    ("aarch64", "JumpCall"): _a64(0x03ffffff, 26, 0),
    ("riscv64", "UType"): dict(size=4, mask=0xfffff000, width=None, field=lambda w: w >> 12, expect=lambda v, n: ((v + 0x800) >> 12) & 0xfffff),
    ("riscv64", "IType"): dict(size=4, mask=0xfff00000, width=None, field=lambda w: w >> 20, expect=lambda v, n: v & 0xfff),
    ("riscv64", "SType"): dict(size=4, mask=0xfe000f80, width=None, field=lambda w: ((w >> 25) << 5) | ((w >> 7) & 0x1f), expect=lambda v, n: v & 0xfff),
    ("riscv64", "BType"): dict(size=4, mask=0xfe000f80, width=None,
                               field=lambda w: (b(w, 31) << 12) | (b(w, 7) << 11) | (((w >> 25) & 0x3f) << 5) | (((w >> 8) & 0xf) << 1),
                               expect=lambda v, n: v & 0x1ffe),
    ("riscv64", "JType"): dict(size=4, mask=0xfffff000, width=None,
                               field=lambda w: (b(w, 31) << 20) | (((w >> 12) & 0xff) << 12) | (b(w, 20) << 11) | (((w >> 21) & 0x3ff) << 1),
                               expect=lambda v, n: v & 0x1ffffe),
    ("riscv64", "UiType"): dict(size=8, mask=0xfff00000fffff000, width=None,
                                field=lambda w: (sx((w & 0xfffff000), 32) + sx(w >> 52, 12)) & 0xffffffff, expect=lambda v, n: v & 0xffffffff),
    ("riscv64", "CbType"): dict(size=2, mask=0x1c7c, width=None,
                                field=lambda w: (b(w, 12) << 8) | (((w >> 5) & 3) << 6) | (b(w, 2) << 5) | (((w >> 10) & 3) << 3) | (((w >> 3) & 3) << 1),
                                expect=lambda v, n: v & 0x1fe),
    ("riscv64", "CjType"): dict(size=2, mask=0x1ffc, width=None,
                                field=lambda w: (b(w, 12) << 11) | (b(w, 8) << 10) | (((w >> 9) & 3) << 8) | (b(w, 6) << 7) | (b(w, 7) << 6)
                                | (b(w, 2) << 5) | (b(w, 11) << 4) | (((w >> 3) & 7) << 1),
                                expect=lambda v, n: v & 0xffe),
    ("riscv64", "CluiType"): dict(size=2, mask=0x107c, width=None, field=lambda w: (b(w, 12) << 5) | ((w >> 2) & 0x1f),
                                  expect=lambda v, n: ((v + 0x800) >> 12) & 0x3f),
    ("loongarch64", "Shift5"): dict(size=4, mask=0x01ffffe0, width=20, field=lambda w: (w >> 5) & 0xfffff, expect=lambda v, n: v),
    ("loongarch64", "Shift10"): dict(size=4, mask=0x003ffc00, width=12, field=lambda w: (w >> 10) & 0xfff, expect=lambda v, n: v),
    ("loongarch64", "Branch21"): dict(size=4, mask=0x03fffc1f, width=21, field=lambda w: ((w & 0x1f) << 16) | ((w >> 10) & 0xffff), expect=lambda v, n: v),
    ("loongarch64", "Branch26"): dict(size=4, mask=0x03ffffff, width=26, field=lambda w: ((w & 0x3ff) << 16) | ((w >> 10) & 0xffff), expect=lambda v, n: v),
    ("loongarch64", "Call36"): dict(size=8, mask=0x03fffc0001ffffe0, width=36,
                                    field=lambda w: ((sx((w >> 5) & 0xfffff, 20) << 16) + sx((w >> 42) & 0xffff, 16)) & ((1 << 36) - 1),
                                    expect=lambda v, n: v),
    # no ISA statement: mask = what the code declares; only locality/independence are checked
    ("loongarch64", "Call30"): dict(size=8, mask=(~((0xFFF803FF << 32) | 0xFE00001F)) & M64, width=20, field=None, expect=None),
}

TEMPLATES = {
    "aarch64": [0x10000000, 0x90000000, 0xf2800000, 0xd2800000, 0x92800000, 0x52800000, 0x58000000, 0xf9400000, 0x91000000, 0x39400000,
                0x36000000, 0x54000000, 0x94000000, 0x14000000, 0x913ffc00],
    "riscv64": [0x00000097, 0x000080e7, 0x00000037, 0x00000013, 0x00003023, 0x00000063, 0x0000006f, 0xc001, 0xa001, 0x6001, 0x000080e700000097],
    "loongarch64": [0x1e000000, 0x4c000000, 0x1a000000, 0x02c00000, 0x50000000, 0x40000000, 0x58000000, 0x4c0000001e000000],
}


def is_movwide64(w):
    return w & 0x9f800000 == 0x92800000


def gen(ctx):
    r = ctx.rng
    per = 1200 if ctx.quick else 40000
    lines = []
    for (arch, kind), k in KINDS.items():
        size = k["size"]
        wm = (1 << (8 * size)) - 1
        width = k["width"] or (64 if size == 8 else 32)
        vals = [0, 1, (1 << width) - 1, (1 << (width - 1)), (1 << (width - 1)) - 1, M64, 0x800, 0x7ff, 0xfffff800, 0x7ffff800, 0x7ffff7ff]
        vals += [1 << i for i in range(64)]
        words = [0, M64, wm] + TEMPLATES[arch] + [t | (k["mask"] & wm) for t in TEMPLATES[arch][:4]]
        cases = [(v, w) for v in vals for w in words[:6]] + [(r.choice(vals), w) for w in words]
        for _ in range(per):
            c = r.below(10)
            if c < 6:
                v = r.below(1 << width)
            elif c < 8:
                v = r.u64_interesting()
            else:
                v = r.next() >> r.below(64)
            w = r.choice(words) if r.chance(1, 4) else r.next()
            cases.append((v, w))
        for v, w in cases:
            if kind == "Call36" and v + 0x8000 > M64:
                ctx.count("value", "call36-overflow-region")
            neg = 1 if (kind == "Movnz" and r.chance(1, 2)) else (1 if r.chance(1, 16) else 0)
            w2 = r.choice([0, M64, w ^ (k["mask"] & wm), r.next()])
            lines.append(f"insn-write {arch} {kind} 0x{v:x} {neg} 0x{w:x}")
            lines.append(f"insn-write {arch} {kind} 0x{v:x} {neg} 0x{w2:x}")
            ctx.count("value", "in-range" if v < (1 << width) else "out-of-range")
        if size == 2:
            # compressed kinds: exhaustive over the 16-bit word, one sampled value each
            for w in range(0, 1 << 16, 1 if not ctx.quick else 3):
                v = r.below(1 << 32) if r.chance(1, 2) else r.u64_interesting()
                lines.append(f"insn-write {arch} {kind} 0x{v:x} 0 0x{w:x}")
                lines.append(f"insn-write {arch} {kind} 0x{v:x} 0 0x{(w ^ 0xffff):x}")
    return lines


def check_writes(ctx, lines, outs):
    """Independent oracle on the implementation's answers. Lines come in pairs (same kind/value/neg, words w, w')."""
    bad = 0
    for i in range(0, len(lines), 2):
        pair = []
        for j in (i, i + 1):
            t = lines[j].split()
            arch, kind, v, neg, w = t[1], t[2], int(t[3], 16), t[4] == "1", int(t[5], 16)
            o = outs[j]
            if not o.startswith("0x"):
                pair.append(None)
                continue
            o = int(o, 16)
            k = KINDS[(arch, kind)]
            bits = 8 * k["size"]
            wm = (1 << bits) - 1
            mask = k["mask"]
            inr = k["width"] is None or v < (1 << k["width"])
            rep = {"arch": arch, "kind": kind, "value": hex(v), "negative": neg, "word": hex(w), "written": hex(o),
                   "how": f"echo '{lines[j]}' | /verif/.target/wvh/debug/wvh"}
            if o >> bits != w >> bits:
                ctx.violation(f"{arch}:{kind}:beyond", f"{kind} write modified bytes beyond the instruction", rep)
                bad += 1
            wl, ol = w & wm, o & wm
            if inr and (ol & ~mask & wm) != (wl & ~mask & wm):
                if kind == "Movnz" and not is_movwide64(wl):
                    key = "aarch64:Movnz:opcode"
                else:
                    key = f"{arch}:{kind}:locality"
                rep["changed_outside_field"] = hex((ol ^ wl) & ~mask & wm)
                ctx.violation(key, f"{arch} {kind}: bits outside the immediate field changed (value {v:#x}, word {wl:#x} -> {ol:#x})", rep)
                bad += 1
            if inr and k["field"] is not None:
                got, exp = k["field"](ol), k["expect"](v, neg)
                if got != exp:
                    rep["isa_field"], rep["expected_field"] = hex(got), hex(exp)
                    ctx.violation(f"{arch}:{kind}:field", f"{arch} {kind}: ISA decode of the written word is {got:#x}, written value {exp:#x} (word {wl:#x})", rep)
                    bad += 1
                if kind == "Movnz" and b(ol, 30) != (0 if neg else 1):
                    ctx.violation("aarch64:Movnz:opc", "Movnz: MOVN/MOVZ selection does not follow the sign", rep)
                    bad += 1
            pair.append((ol & mask, inr, rep))
        if pair[0] and pair[1] and pair[0][1] and pair[0][0] != pair[1][0]:
            rep = dict(pair[0][2])
            rep["other_word"] = pair[1][2]["word"]
            rep["other_written"] = pair[1][2]["written"]
            ctx.violation(f"{rep['arch']}:{rep['kind']}:independence",
                          f"{rep['arch']} {rep['kind']}: new field content depends on the previous word ({rep['word']} vs {rep['other_word']})", rep)
            bad += 1
    return bad


# ---- validation of the ISA-side decoders against the clang integrated assembler
A64_ASM = [
    ("Adr", "adr x0, .+{}", [0, 4, -4, 0xffffc, -0x100000, 0x12345, 1, 3], 1),
    ("Movkz", "movk x3, #{}", [0, 1, 0x8000, 0xffff, 0x1234], 1),
    ("Ldr", "ldr x0, .+{}", [0, 4, -4, 0xffffc, -0x100000], 4),
    ("Add", "add x0, x1, #{}", [0, 1, 0x800, 0xfff], 1),
    ("LdSt", "ldrb w0, [x1, #{}]", [0, 1, 0x800, 0xfff], 1),
    ("LdrRegister", "ldr x0, [x1, #{}]", [0, 8, 0x4000, 0x7ff8], 8),
    ("TstBr", "tbz x0, #3, .+{}", [0, 4, -4, 0x7ffc, -0x8000], 4),
    ("Bcond", "b.eq .+{}", [0, 4, -4, 0xffffc, -0x100000], 4),
    ("JumpCall", "bl .+{}", [0, 4, -4, 0x7fffffc, -0x8000000], 4),
]
RV_ASM = [
    ("UType", 4, "lui a0, {}", [0, 1, 0x7ffff, 0x80000, 0xfffff], lambda i: sx(i << 12, 32)),
    ("IType", 4, "addi a0, a1, {}", [0, 1, -1, 2047, -2048], lambda i: i),
    ("SType", 4, "sd a0, {}(a1)", [0, 1, -1, 2047, -2048, 0x555], lambda i: i),
    ("BType", 4, "beq a0, a1, .+{}", [0, 4, 6, -2, 4094, -4096, 0x554], lambda i: i),
    ("JType", 4, "jal ra, .+{}", [0, 4, 6, -2, 0xffffe, -0x100000, 0x55554], lambda i: i),
    ("CbType", 2, "c.beqz a0, .+{}", [0, 2, -2, 254, -256, 0x54], lambda i: i),
    ("CjType", 2, "c.j .+{}", [0, 2, -2, 2046, -2048, 0x554], lambda i: i),
    ("CluiType", 2, "c.lui a0, {}", [1, 31, 0xfffe0, 0xfffff], lambda i: sx(i << 12, 18)),
]


def assemble(ctx, target, extra, src, name):
    s = os.path.join(ctx.scratch, name + ".s")
    o = os.path.join(ctx.scratch, name + ".o")
    bn = os.path.join(ctx.scratch, name + ".bin")
    open(s, "w").write(src)
    p = subprocess.run(["clang", "--target=" + target, "-c", s, "-o", o] + extra, stdout=subprocess.PIPE, stderr=subprocess.STDOUT, text=True)
    if p.returncode != 0:
        return None, p.stdout
    p = subprocess.run(["llvm-objcopy", "-O", "binary", "-j", ".text", o, bn], stdout=subprocess.PIPE, stderr=subprocess.STDOUT, text=True)
    if p.returncode != 0:
        return None, p.stdout
    rel = subprocess.run(["llvm-readelf", "-r", o], stdout=subprocess.PIPE, stderr=subprocess.STDOUT, text=True).stdout
    if "R_AARCH64" in rel or "R_RISCV" in rel:
        return None, "assembler left relocations: " + rel[:300]
    return open(bn, "rb").read(), ""


def validate_spec(ctx):
    """The Lean ISA decoders (insn-isa) and the Python ones must agree with what the assembler encodes."""
    reqs, exps, pyc = [], [], []
    src = ".text\n"
    plan = []
    for kind, tpl, imms, scale in A64_ASM:
        for i in imms:
            src += tpl.format(i) + "\n"
            plan.append((kind, 4, (i // scale) & M64 if kind not in ("Adr",) else i & M64))
    for opc, f in (("movz", lambda i: i), ("movn", lambda i: ~i & M64)):
        for i in (0, 1, 0x8000, 0xffff, 0x1234):
            src += f"{opc} x5, #{i}\n"
            plan.append(("Movnz", 4, f(i)))
    data, err = assemble(ctx, "aarch64-linux-gnu", [], src, "a64spec")
    if data is None:
        ctx.broken.append("spec validation: aarch64 assembly failed: " + err[-300:])
    else:
        off = 0
        for kind, sz, exp in plan:
            w = int.from_bytes(data[off:off + sz], "little")
            off += sz
            reqs.append(f"insn-isa aarch64 {kind} 0x{w:x}")
            exps.append(exp)
            k = KINDS[("aarch64", kind)]
            pyc.append((k["field"](w), exp & ((1 << k["width"]) - 1), "aarch64", kind, w))
    src = ".text\n.option norelax\n.option rvc\n"
    plan = []  # (kind, size, expected, byte offset of the instruction)
    pos = 0
    for kind, sz, tpl, imms, f in RV_ASM:
        src += ".option rvc\n" if sz == 2 else ".option norvc\n"  # otherwise lui/addi are auto-compressed
        for i in imms:
            if ".+" in tpl:
                # pc-relative kinds: real labels (the RISC-V assembler cannot resolve `.+imm`)
                ins = tpl.split(".+")[0]
                if i > 0:
                    src += f"{ins}1f\n.space {i - sz}\n1:\n"
                    plan.append((kind, sz, f(i) & M64, pos))
                    pos += i
                elif i < 0:
                    src += f"1:\n.space {-i}\n{ins}1b\n"
                    plan.append((kind, sz, f(i) & M64, pos - i))
                    pos += -i + sz
                else:
                    src += f"1:\n{ins}1b\n"
                    plan.append((kind, sz, 0, pos))
                    pos += sz
            else:
                src += tpl.format(i) + "\n"
                plan.append((kind, sz, f(i) & M64, pos))
                pos += sz
    data, err = assemble(ctx, "riscv64-linux-gnu", ["-march=rv64gc", "-mno-relax"], src, "rvspec")
    if data is None:
        ctx.broken.append("spec validation: riscv64 assembly failed: " + err[-300:])
    else:
        for kind, sz, exp, off in plan:
            w = int.from_bytes(data[off:off + sz], "little")
            reqs.append(f"insn-isa riscv64 {kind} 0x{w:x}")
            exps.append(exp)
            k = KINDS[("riscv64", kind)]
            if kind not in ("UType", "CluiType"):
                pyc.append((k["field"](w), k["expect"](exp, False), "riscv64", kind, w))
    if not reqs:
        return
    outs = ctx.model_eval(reqs)
    n = 0
    for rq, o, e in zip(reqs, outs, exps):
        ctx.note_case(("spec", rq))
        if o != f"0x{e:x}":
            n += 1
            ctx.broken.append(f"spec validation: Lean ISA decoder disagrees with the assembler: {rq} -> {o}, assembled immediate 0x{e:x}")
    for got, exp, arch, kind, w in pyc:
        if got != exp:
            ctx.broken.append(f"spec validation: Python ISA decoder disagrees with the assembler: {arch} {kind} word {w:#x}: {got:#x} vs {exp:#x}")
    ctx.count("spec-validation", "assembled-words", len(reqs))
    ctx.count("spec-validation", "mismatches", n)
    ctx.sample({"spec_validation": reqs[0], "lean_decode": outs[0], "assembled_immediate": hex(exps[0])})


def check_rows(ctx):
    """Tie to the tables: rows handing an encoder more bits than its field (mirrors theorem rows_in_range)."""
    for row in getattr(ctx, "tables", []):
        if not row["bits"]:
            continue
        s, e, ak = row["bits"]
        arch, kind = ak.split(":")
        k = KINDS.get((arch, kind))
        if k is None or k["width"] is None or kind == "Movnz" or e - s <= k["width"]:
            continue
        # concrete demonstration through the real write path
        v = (-row["alignment"]) & M64
        req = f"reloc-write {arch} {row['rtype']} 0x{v:x} 8"
        out = ctx.impl_eval([req])[0]
        w0 = f"insn-write {arch} {kind} 0x0 0 0x{(1 << (8 * k['size'])) - 1:x}"
        w1 = f"insn-write {arch} {kind} 0x0 0 0x0"
        o0, o1 = ctx.impl_eval([w0, w1])
        ctx.violation(f"{arch}:{row['rtype']}:width",
                      f"{row['name']} hands {e - s} bits to {kind} whose field/clear mask is {k['width']} bits wide",
                      {"row": row, "request": req, "written": out, "independence_demo": [w0, o0, w1, o1],
                       "how": "echo '<request>' | /verif/.target/wvh/debug/wvh"})


def regenerate(ctx):
    c12c13_tables.regenerate(ctx)


def run(ctx):
    validate_spec(ctx)
    lines = gen(ctx)
    for l in lines:
        ctx.count("kind", l.split()[1] + ":" + l.split()[2])

    def nontrivial(l, a, b_):
        t = l.split()
        return int(t[3], 16) != 0 or int(t[5], 16) != 0

    dis, impl, model = ctx.differential("insn-write", lines, nontrivial=nontrivial)
    bad = check_writes(ctx, lines, impl)
    ctx.cov["impl_oracle_failures"] += bad
    # read back every written word
    rl = []
    meta = []
    for l, o in zip(lines, impl):
        if o.startswith("0x"):
            t = l.split()
            rl.append(f"insn-read {t[1]} {t[2]} {o}")
            meta.append((t[1], t[2], int(t[3], 16), l, o))
    # also raw words
    for (arch, kind), k in KINDS.items():
        for _ in range(200 if ctx.quick else 5000):
            rl.append(f"insn-read {arch} {kind} 0x{ctx.rng.next() & ((1 << (8 * k['size'])) - 1):x}")
    dis2, impl2, model2 = ctx.differential("insn-read", rl)
    # Call30: reader is documented as the inverse of the writer
    for (arch, kind, v, l, o), rd in zip(meta, impl2):
        if kind == "Call30" and v < (1 << 17) and rd.startswith("0x"):
            got = int(rd.split()[0], 16)
            if got != v:
                ctx.cov["impl_oracle_failures"] += 1
                ctx.violation("loongarch64:Call30:read", f"Call30 read_value(write_to_value({v:#x})) = {got:#x}",
                              {"write": l, "written": o, "read": rd, "how": "echo '<write>' | wvh ; echo 'insn-read loongarch64 Call30 <written>' | wvh"})
                break
    check_rows(ctx)
    # the shared runner only reports `broken` obligations when there is no other violation; this
    # check always has known findings, so surface our own broken obligations explicitly
    surface_broken(ctx, "C13")


MY_FILES = ("Insn", "C13", "C12", "RelocRange", "RelocTables", "OpsInsn", "OpsReloc")


def surface_broken(ctx, pid):
    import hashlib
    mine = [x for x in ctx.broken if not x.startswith("forbidden construct") or any(("/" + f + ".lean") in x for f in MY_FILES)]
    if mine:
        ctx.violation("broken:" + hashlib.sha256("|".join(mine).encode()).hexdigest()[:12],
                      "proof obligation, spec validation or correspondence no longer checks", {"broken": mine}, found_input=False)
