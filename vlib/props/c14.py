"""C14 - x86-64 GOT and TLS relaxations preserve instruction semantics."""
import os
import subprocess

LEAN_MODULES = ["WildModel.Lemmas.C14Sem", "WildModel.Lemmas.C14Tls", "WildModel.Lemmas.C14Bounds", "WildModel.Props.C14"]
THEOREMS = [
    # end-to-end (real decision + real apply of the model, any flags/output kind/section flags, any trailing bytes, any state/S)
    "Wild.C14.rex_mov_to_abs_ok",
    "Wild.C14.rex_sub_to_abs_ok",
    "Wild.C14.rex_cmp_to_abs_ok",
    "Wild.C14.dec42",
    "Wild.C14.rexToAbs42_ok",
    "Wild.C14.rex_abs_r32_unsound_witness",
    # semantic core per rewrite family (symbolic in state, S, GOT, place) + head decoding tables of the rewriting functions
    "Wild.C14.abs64_sem",
    "Wild.C14.abs32_sem",
    "Wild.C14.alu_sem",
    "Wild.C14.lea_sem",
    "Wild.C14.call_sem",
    "Wild.C14.jmp_sem",
    "Wild.C14.rex_mov_heads",
    "Wild.C14.rex_alu_heads",
    "Wild.C14.rex2_heads",
    "Wild.C14.legacy_heads",
    "Wild.C14.prefixed_lea",
    "Wild.C14.branch_heads",
    # end-to-end, remaining GOT rewrites: legacy mov -> mov $imm32 / lea, call/jmp *GOT -> direct, REX mov -> lea, plain GOTPCREL
    # (any single prefix byte), APX REX2 (0xd5) forms
    "Wild.C14.gotpcrelx_mov_ok",
    "Wild.C14.gotpcrelx_call_ok",
    "Wild.C14.gotpcrelx_jmp_ok",
    "Wild.C14.rex_mov_to_lea_ok",
    "Wild.C14.gotpcrel_mov_to_lea_ok",
    "Wild.C14.gotpcrel_prefixed_mov_to_lea_ok",
    "Wild.C14.rex2_gotpcrelx_ok",
    "Wild.C14.dec41",
    "Wild.C14.dec43",
    # TLS: sequence-level (decodeIns/stepIns/runSeq, __tls_get_addr abstracted) GD->LE, GD->IE, LD->LE (PLT and GOT call);
    # instruction-level IE->LE (REX and REX2)
    "Wild.C14.tls_gd_to_le_ok",
    "Wild.C14.tls_gd_to_ie_ok",
    "Wild.C14.tls_ld_to_le_ok",
    "Wild.C14.tls_ld_to_le_noplt_ok",
    "Wild.C14.tls_ld_to_le_64_ok",
    "Wild.C14.tls_gd_to_le_large_ok",
    "Wild.C14.gottpoff_ok",
    "Wild.C14.rex2_gottpoff_ok",
    "Wild.C14.gd_le_sem",
    "Wild.C14.gd_ie_sem",
    "Wild.C14.dec19",
    "Wild.C14.dec20",
    "Wild.C14.dec22",
    "Wild.C14.dec44",
    # index safety of apply after the decision (all 18 kinds, every byte list) + witnesses that the length hypothesis is needed
    "Wild.C14.relax_window_in_bounds",
    "Wild.C14.relax_field_in_bounds",
    "Wild.C14.apply_in_bounds",
    "Wild.C14.decision_behind",
    "Wild.C14.relax_window_needs_length_witness",
    "Wild.C14.tlsld_truncated_panics",
    "Wild.C14.tlsld_noplt_truncated_panics",
    "Wild.C14.tlsld64_truncated_panics",
    "Wild.C14.tlsdesc_call_truncated_panics",
    "Wild.C14.jmp_truncated_panics",
    "Wild.C14.tlsdesc_truncated_panics",
]
LEVEL = "proof"
NEEDS_WILD = False
TRUSTED = [
    "hand-written model lean/WildModel/Model/X86Relax.lean of ElfX86_64::new_relaxation + RelaxationKind::apply, tied by differential "
    "correspondence x86relax / x86relax-sweep (exhaustive 2^16 byte-pair sweeps) against the real functions through libwild::verif_api::x86relax",
    "x86-64 semantics lean/WildModel/Model/X86Sem.lean of the instruction forms touched (mov/lea/add/sub/cmp r64,[rip+d]; "
    "mov/add/sub/cmp r/m64,imm32 sign-extended; mov r32,imm32; call/jmp [rip+d]; call/jmp rel32; REX, REX2 prefix plumbing; mov %fs:0; "
    "lea d(%rax),%rax); validated on this CPU by the native runner for the REX/legacy forms; REX2/EVEX forms cannot be executed here "
    "(no apx_f in /proc/cpuinfo) and rest on the model alone",
    "relocation formulas of the new relocation types (S+A for R_X86_64_32/32S, S+A-P for PC32, S-TP for TPOFF32, GOT+A-P for GOTTPOFF) "
    "and their range checks as in linker-utils relocation_from_raw (C12 covers the table)",
    "__tls_get_addr(m,o) = tlsBase m + o and %fs:0 = TP are parameters of the TLS theorems",
    "sequence-level semantics of the TLS theorems (X86Sem.decodeIns/stepIns/runSeq: byte decoder for lea/mov %fs:/add/movabs/call/nop forms, "
    "call to __tls_get_addr abstracted with SysV call-clobbered registers unspecified, status flags not observed across the call) is spec-side and "
    "not executed natively; static-TLS hypotheses (variant II: tlsBase = TP - (tpStart - tlsStart); tls_index words as wild's writer stores them) are "
    "explicit hypotheses of tls_*_ok",
    "bv_decide (LRAT-checked SAT certificates) for 64-bit sign-extension / flag equalities",
]
RULE = ("x86relax requests: templates of every relaxable instruction form x r_type x 16 value-flag combinations x 6 output kinds x section flags, at offsets "
        "0..8 (look-behind at section start), truncated tails, random mutations; x86relax-sweep requests enumerate all 2^16 values of two window bytes "
        "(each sweep line counts as one request but 65536 evaluations on both sides). Non-trivial = answer other than `none`. Every well-formed relaxed "
        "REX/legacy window is also executed natively (original vs rewritten bytes on an RWX page with a synthetic GOT) for a grid of symbol values.")
ASSUMPTIONS = [
    "original window is an assembler-produced instruction of the family the relocation type is defined for (ModRM mod=00 rm=101, addend -4); "
    "the theorems carry these as explicit hypotheses and witnesses show they are needed",
    "PC-relative rewrites (lea/call/jmp) of ABSOLUTE symbols in position-independent outputs are correct only at load bias 0 (GNU ld 2.40 does the same)",
]

HERE = os.path.dirname(os.path.abspath(__file__))
M64 = (1 << 64) - 1

R_TYPES_RELAX = [2, 4, 9, 19, 20, 22, 31, 34, 35, 41, 42, 43, 44, 45, 50]
R_TYPES_OTHER = [0, 1, 3, 10, 11, 23, 46, 47, 48, 49, 51]
SECTION_FLAGS = [0x6, 0x2, 0x3, 0x7]

# (r_type, look-behind k, window bytes (instruction incl. 4-byte field and what follows))
TEMPLATES = [
    (41, 2, "8b0500000000"), (41, 2, "8b3d00000000"), (41, 2, "ff1500000000"), (41, 2, "ff2500000000"),
    (41, 2, "030500000000"), (41, 2, "850500000000"), (41, 2, "3b0500000000"),
    (42, 3, "488b0500000000"), (42, 3, "4c8b3d00000000"), (42, 3, "482b1d00000000"), (42, 3, "4c3b0d00000000"),
    (42, 3, "48030500000000"), (42, 3, "48850500000000"), (42, 3, "448b0d00000000"), (42, 3, "49 8b0500000000".replace(" ", "")),
    (43, 4, "d5488b0500000000"), (43, 4, "d54c8b0500000000"), (43, 4, "d5482b0500000000"), (43, 4, "d54c3b3d00000000"),
    (43, 4, "d5088b0500000000"), (43, 4, "00488b0500000000"), (43, 4, "d548030500000000"),
    (9, 2, "8b0500000000"), (9, 3, "668b0500000000"), (9, 3, "488b0500000000"), (9, 3, "48890500000000"),
    (22, 3, "488b0500000000"), (22, 3, "4c8b2d00000000"), (22, 3, "48030500000000"), (22, 3, "4c032500000000"), (22, 3, "482b0500000000"),
    (44, 4, "d5488b0500000000"), (44, 4, "d54c030500000000"), (44, 4, "d5480305 00000000".replace(" ", "")), (44, 4, "90488b0500000000"),
    (50, 6, "62f4fc18010500000000"), (50, 6, "62e4fc18030d00000000"), (50, 6, "6264bc1803 0500000000".replace(" ", "")),
    (50, 6, "62f4fc0c030500000000"), (50, 6, "62f47c18030500000000"), (50, 6, "62f4fc08030500000000"), (50, 6, "6274fc10012d00000000"),
    (4, 1, "e800000000"), (2, 1, "e800000000"), (31, 2, "48b80000000000000000"),
    (19, 4, "66488d3d00000000666648e800000000"), (19, 3, "488d3d0000000048b8000000000000000048 01d8ffd0".replace(" ", "")),
    (19, 4, "66488d3d00000000666648ff1500000000"), (19, 4, "66488d3d000000006666"),
    (20, 3, "488d3d00000000e800000000"), (20, 3, "488d3d00000000ff1500000000"), (20, 3, "488d3d0000000048b800000000000000004801d8ffd0"),
    (20, 3, "488d3d00000000e80000"), (20, 3, "488d3d00000000ff15"), (20, 3, "488d3d0000000048b8"), (20, 3, "488d3500000000e800000000"),
    (34, 3, "488d0500000000"), (34, 3, "4c8d3d00000000"), (34, 3, "488b0500000000"), (34, 3, "488d05000000"),
    (45, 4, "d5488d0500000000"), (45, 4, "d54c8d0500000000"), (45, 4, "00488d0500000000"),
    (35, 0, "ff10"), (35, 0, "ff"), (35, 0, ""),
]


def req(rt, vf, ok, sf, off, add, bs):
    return f"x86relax {rt} 0x{vf:x} {ok} 0x{sf:x} {off} {add} {bs.hex() if bs else '-'}"


def gen(ctx):
    r = ctx.rng
    lines = []
    # 1. every template x every flag combination x output kind, at its natural offset
    for rt, k, hx in TEMPLATES:
        w = bytes.fromhex(hx)
        for vf in range(16):
            for ok in range(6):
                lines.append(req(rt, vf, ok, 0x6, k, -4, w))
        for sf in SECTION_FLAGS:
            lines.append(req(rt, 0x9, 0, sf, k, -4, w))
            lines.append(req(rt, 0x8, 3, sf, k, -4, w))
        # look-behind at section start: the same bytes, relocation offset 0..k+2 (drop leading bytes)
        for off in range(0, k + 3):
            for vf in (0x8, 0x9, 0x0, 0x1):
                for ok in (0, 3, 4):
                    if off <= k:
                        lines.append(req(rt, vf, ok, 0x6, off, -4, w[k - off:]))
                    else:
                        lines.append(req(rt, vf, ok, 0x6, off, -4, bytes([0x90] * (off - k)) + w))
        # truncated tails and offsets beyond the section
        for cut in range(0, len(w) + 1):
            lines.append(req(rt, 0x8, 0, 0x6, k, -4, w[:cut]))
            lines.append(req(rt, 0x9, 0, 0x6, k, -4, w[:cut]))
        for off in (len(w), len(w) + 1, len(w) + 5):
            lines.append(req(rt, 0x9, 0, 0x6, off, -4, w))
            lines.append(req(rt, 0x8, 1, 0x6, off, -4, w))
    # 2. all r_types incl. unrelaxable ones on a few windows
    for rt in R_TYPES_RELAX + R_TYPES_OTHER + [r.below(1 << 16) for _ in range(8)]:
        for _, k, hx in TEMPLATES[::5]:
            for vf in (0x8, 0x9, 0xc, 0x0):
                lines.append(req(rt, vf, r.below(6), 0x6, k, -4, bytes.fromhex(hx)))
    # 3. random mutations
    n = 3000 if ctx.quick else 150000
    for _ in range(n):
        rt0, k, hx = r.choice(TEMPLATES)
        w = bytearray(bytes.fromhex(hx))
        rt = rt0 if r.chance(7, 8) else r.choice(R_TYPES_RELAX)
        for _ in range(r.below(3)):
            if w:
                w[r.below(len(w))] = r.choice([0x48, 0x4c, 0x8b, 0x8d, 0xd5, 0x62, 0x03, 0x2b, 0x3b, 0xff, 0x15, 0x25, 0xe8, r.below(256)])
        pre = bytes(r.below(256) for _ in range(r.below(4)))
        off = k + len(pre) if r.chance(5, 6) else r.below(len(w) + len(pre) + 3)
        vf = r.below(16) if r.chance(7, 8) else r.below(1 << 16)
        add = r.choice([-4, -4, -4, 0, 4, -8, 100])
        lines.append(req(rt, vf, r.below(6), r.choice(SECTION_FLAGS + [0x6] * 4), off, add, pre + bytes(w)))
    return lines


def gen_sweeps(ctx):
    """x86relax-sweep lines: all 2^16 values of two window bytes."""
    r = ctx.rng
    out = []

    def sw(rt, vf, ok, off, i, j, w):
        out.append(f"x86relax-sweep {rt} 0x{vf:x} {ok} 0x6 {off} -4 {i} {j} {w.hex()}")

    if ctx.quick:
        combos = [(0x9, 0), (0x8, 0), (0x8, 3), (0x0, 4), (0x1, 2)]
        regs = [0, 7]
    else:
        combos = [(vf, ok) for vf in range(16) for ok in range(6)]
        regs = list(range(8))
    for vf, ok in combos:
        # GOTPCRELX: (opcode, modrm) ; GOTPCREL likewise
        sw(41, vf, ok, 2, 0, 1, bytes.fromhex("8b0500000000"))
        sw(9, vf, ok, 2, 0, 1, bytes.fromhex("8b0500000000"))
        for reg in regs:
            m = 0x05 | reg << 3
            # REX_GOTPCRELX / GOTTPOFF: (rex, opcode) x modrm.reg ; (opcode, modrm) x rex
            sw(42, vf, ok, 3, 0, 1, bytes([0x48, 0x8b, m, 0, 0, 0, 0]))
            sw(22, vf, ok, 3, 0, 1, bytes([0x48, 0x8b, m, 0, 0, 0, 0]))
            sw(34, vf, ok, 3, 0, 1, bytes([0x48, 0x8d, m, 0, 0, 0, 0]))
            # REX2: (payload, opcode) with d5 ; (first byte, payload)
            sw(43, vf, ok, 4, 1, 2, bytes([0xd5, 0x48, 0x8b, m, 0, 0, 0, 0]))
            sw(44, vf, ok, 4, 1, 2, bytes([0xd5, 0x48, 0x8b, m, 0, 0, 0, 0]))
            sw(45, vf, ok, 4, 1, 2, bytes([0xd5, 0x48, 0x8d, m, 0, 0, 0, 0]))
        sw(42, vf, ok, 3, 1, 2, bytes.fromhex("4c8b0500000000"))
        sw(43, vf, ok, 4, 0, 1, bytes.fromhex("d5488b0500000000"))
        sw(43, vf, ok, 4, 0, 2, bytes.fromhex("d54c2b0500000000"))
        # EVEX: (P0,P1), (P2,opcode), (opcode, modrm)
        sw(50, vf, ok, 6, 1, 2, bytes.fromhex("62f4fc18030500000000"))
        sw(50, vf, ok, 6, 3, 4, bytes.fromhex("62f4fc18030500000000"))
        sw(50, vf, ok, 6, 1, 5, bytes.fromhex("62f4fc18010500000000"))
        sw(50, vf, ok, 6, 0, 4, bytes.fromhex("62e4fc18030500000000"))
        # TLS GD / LD: the two bytes after the field
        sw(19, vf, ok, 4, 8, 11, bytes.fromhex("66488d3d00000000666648e800000000"))
        sw(20, vf, ok, 3, 7, 8, bytes.fromhex("488d3d00000000e80000000000"))
        sw(20, vf, ok, 3, 1, 2, bytes.fromhex("488d3d00000000ff1500000000"))
    return out


# ---------------------------------------------------------------------------------------------
# Native oracle: run original and rewritten instruction on this CPU.
BASE = 0x10000000
T_OFF, EPI_OFF, PAD_OFF, SAVED_RSP, IN_OFF, OUT_OFF, GOT_OFF = 0x1000, 0x2000, 0x3000, 0x4000, 0x4100, 0x4200, 0x5008
FLAG_MASK = 0x8d5


def le32(v):
    return (v & 0xffffffff).to_bytes(4, "little")


def abs_mem(op, reg, addr):
    """REX.W <op> with ModRM mod=00 reg rm=100, SIB=0x25 (disp32 absolute)."""
    rex = 0x48 | (4 if reg >= 8 else 0)
    return bytes([rex, op, 0x04 | (reg & 7) << 3, 0x25]) + le32(addr)


def prologue():
    c = bytes.fromhex("5355415441554156 4157".replace(" ", ""))
    c += abs_mem(0x89, 4, BASE + SAVED_RSP)                      # mov %rsp, saved
    c += bytes([0xff, 0x34, 0x25]) + le32(BASE + IN_OFF + 16 * 8) + b"\x9d"   # push in_flags; popf
    for i in range(16):
        if i != 4:
            c += abs_mem(0x8b, i, BASE + IN_OFF + 8 * i)
    here = len(c)
    c += b"\xe9" + le32(T_OFF - (here + 5))
    return c


def epilogue():
    c = b""
    for i in range(16):
        c += abs_mem(0x89, i, BASE + OUT_OFF + 8 * i)
    c += abs_mem(0x8b, 4, BASE + SAVED_RSP)
    c += b"\x9c" + bytes([0x8f, 0x04, 0x25]) + le32(BASE + OUT_OFF + 16 * 8)  # pushf; pop out_flags
    c += bytes.fromhex("415f415e415d415c5d5bc3")
    return c


def pad(kind):
    """Landing pad for call (kind 1: record, save return address, ret) / jmp (kind 2: record, go to the epilogue)."""
    c = bytes([0x48, 0xc7, 0x04, 0x25]) + le32(BASE + OUT_OFF + 17 * 8) + le32(kind)
    if kind == 1:
        c += b"\x50" + bytes.fromhex("488b442408") + abs_mem(0x89, 0, BASE + OUT_OFF + 18 * 8) + b"\x58\xc3"
    else:
        here = PAD_OFF + len(c)
        c += b"\xe9" + le32(EPI_OFF - (here + 5))
    return c


PROLOGUE = None
EPILOGUE = None


def snippet_line(ident, code, regs, flags, got_vals, padkind):
    """code: instruction bytes placed at T_OFF followed by a jump to the epilogue."""
    global PROLOGUE, EPILOGUE
    if PROLOGUE is None:
        PROLOGUE, EPILOGUE = prologue(), epilogue()
    t = code + b"\xe9" + le32(EPI_OFF - (T_OFF + len(code) + 5))
    inb = b"".join(v.to_bytes(8, "little") for v in regs) + flags.to_bytes(8, "little")
    gotb = b"".join(v.to_bytes(8, "little") for v in got_vals)
    chunks = [(0, PROLOGUE), (T_OFF, t), (EPI_OFF, EPILOGUE), (IN_OFF, inb), (GOT_OFF - 8, gotb)]
    if padkind:
        chunks.append((PAD_OFF, pad(padkind)))
    return ident + " " + " ".join(f"{o:x}:{b.hex()}" for o, b in chunks)


RANGE = {10: (0, 1 << 32), 11: (-(1 << 31), 1 << 31), 23: (-(1 << 31), 1 << 31), 2: (-(1 << 31), 1 << 31), 22: (-(1 << 31), 1 << 31)}


def s64(v):
    v &= M64
    return v - (1 << 64) if v >> 63 else v


def new_field(rt, S, addend, place, got):
    """Value wild writes for the NEW relocation type (elf_writer::apply_relocation), or None = range error (no output)."""
    if rt in (10, 11, 23):      # Absolute: S + A ; TpOff: (S - TP) + A with S' := S - TP given directly
        v = (S + addend) & M64
    elif rt == 2:               # Relative: S + A - P
        v = (S + addend - place) & M64
    elif rt == 22:              # GotTpOff: GOT + A - P
        v = (got + addend - place) & M64
    else:
        return None
    lo, hi = RANGE[rt]
    if not (lo <= s64(v) < hi):
        return None
    return v & 0xffffffff


S_GRID = [0, 1, 0x1234, 0x7fffffff, 0x80000000, 0x80000001, 0xffffffff, 0x100000000, 0xffffffff80000000, 0xffffffff7fffffff,
          M64, M64 - 1, 1 << 63, 0x7fffffffffffffff, 0xfffffffe, 0x123456789a]


def native_forms():
    """(r_type, vf, ok, window hex, pad kind, symbol-values) of well-formed instructions to execute."""
    forms = []
    for reg in range(8):
        m = 0x05 | reg << 3
        for vf in (0x9, 0x8):
            forms.append((41, vf, 0, bytes([0x8b, m, 0, 0, 0, 0]), 0))
            forms.append((9, vf, 0, bytes([0x8b, m, 0, 0, 0, 0]), 0))
            forms.append((9, vf, 0, bytes([0x66, 0x8b, m, 0, 0, 0, 0]), 0))
            for rex in (0x48, 0x4c):
                forms.append((9, vf, 0, bytes([rex, 0x8b, m, 0, 0, 0, 0]), 0))
                for op in (0x8b, 0x2b, 0x3b, 0x03, 0x13, 0x1b, 0x23, 0x0b, 0x33, 0x85):
                    forms.append((42, vf, 0, bytes([rex, op, m, 0, 0, 0, 0]), 0))
                for op in (0x8b, 0x03):
                    forms.append((22, 0x8, 0, bytes([rex, op, m, 0, 0, 0, 0]), 0))
    for vf in (0x8, 0x9):
        forms.append((41, vf, 0, bytes.fromhex("ff1500000000"), 1))
        forms.append((41, vf, 0, bytes.fromhex("ff2500000000"), 2))
    return forms


def lookbehind(rt, w):
    return len(w) - 4


def native(ctx, addend=-4, forms=None, key_prefix="native", sgrid=None):
    """Returns list of (request, S, what) semantic differences."""
    cc = os.path.join(ctx.scratch, "c14runner")
    if not os.path.exists(cc):
        p = subprocess.run(["gcc", "-O1", "-o", cc, os.path.join(HERE, "c14_native", "runner.c")], stdout=subprocess.PIPE, stderr=subprocess.STDOUT, text=True)
        if p.returncode != 0:
            ctx.assumptions.append("native runner could not be compiled: " + p.stdout[-300:])
            return None
    forms = forms if forms is not None else native_forms()
    reqs = [req(rt, vf, ok, 0x6, lookbehind(rt, w), addend, w) for rt, vf, ok, w, _ in forms]
    impl = ctx.impl_eval(reqs)
    r = ctx.rng.fork()
    lines, meta = [], []
    n_range_err = 0
    for (rt, vf, ok, w, padkind), rq, out in zip(forms, reqs, impl):
        if out == "none" or out.startswith("panic"):
            continue
        t = out.split()
        kind = t[0]
        f = dict(x.split("=") for x in t[1:6])
        nrt, noff, nadd = int(f["rt"]), int(f["off"]), int(f["add"])
        nb = bytes.fromhex(t[6])
        k = len(w) - 4
        grid = list(sgrid if sgrid is not None else S_GRID) + [r.u64_interesting() for _ in range(4 if ctx.quick else 40)]
        if padkind:
            grid = [BASE + PAD_OFF]
        elif nrt == 2:   # lea: S must be within reach of the place
            P = BASE + T_OFF + noff
            grid = [(P + d) & M64 for d in (0, 4, -4, (1 << 31) - 1 - nadd, -(1 << 31) - nadd, (1 << 31) - nadd, 0x1234567, -0x7654321)] + \
                   [(P + r.range(-(1 << 31), (1 << 31) - 1)) & M64 for _ in range(4 if ctx.quick else 40)]
        for S in grid:
            got = BASE + GOT_OFF
            P = BASE + T_OFF + k
            orig = bytearray(w)
            orig[k:k + 4] = le32(got + addend - P)
            fv = new_field(nrt, S, nadd, BASE + T_OFF + noff, got)
            if fv is None:
                n_range_err += 1
                continue
            new = bytearray(nb)
            new[noff:noff + 4] = le32(fv)
            regs = [r.next() for _ in range(16)]
            flags = 0x202 | (r.next() & FLAG_MASK)
            gotv = [0x1111111111111111 ^ S, S, 0x2222222222222222 ^ (S >> 1)]
            ident = f"c{len(meta)}"
            lines.append(snippet_line(ident + "o", bytes(orig), regs, flags, gotv, padkind))
            lines.append(snippet_line(ident + "n", bytes(new), regs, flags, gotv, padkind))
            meta.append((rq, out, S, bytes(orig), bytes(new), kind))
    p = subprocess.run([cc], input="\n".join(lines) + "\n", stdout=subprocess.PIPE, stderr=subprocess.PIPE, text=True, timeout=600)
    res = dict(l.split(" ", 1) for l in p.stdout.split("\n") if " " in l)
    diffs = []
    for i, (rq, out, S, ob, nb, kind) in enumerate(meta):
        a, b = res.get(f"c{i}o"), res.get(f"c{i}n")
        ctx.count("native", kind.split("(")[0])
        if a is None or b is None:
            diffs.append((rq, S, ob, nb, f"runner produced no result (orig={a} new={b})"))
            continue
        if a.startswith("fault") or b.startswith("fault"):
            if a != b:
                diffs.append((rq, S, ob, nb, f"orig={a} new={b}"))
            continue
        ra, rb = bytes.fromhex(a), bytes.fromhex(b)
        va = [int.from_bytes(ra[8 * j:8 * j + 8], "little") for j in range(20)]
        vb = [int.from_bytes(rb[8 * j:8 * j + 8], "little") for j in range(20)]
        va[16] &= FLAG_MASK
        vb[16] &= FLAG_MASK
        if va != vb:
            names = ["rax", "rcx", "rdx", "rbx", "rsp", "rbp", "rsi", "rdi"] + [f"r{j}" for j in range(8, 16)] + ["flags", "arrived", "retaddr", "-"]
            d = [f"{names[j]}: orig=0x{va[j]:x} new=0x{vb[j]:x}" for j in range(20) if va[j] != vb[j]]
            diffs.append((rq, S, ob, nb, "; ".join(d)))
    ctx.count("native", "executed-pairs", len(meta))
    ctx.count("native", "skipped-new-reloc-range-error", n_range_err)
    ctx.cov["evaluations"] += len(meta)
    return diffs


def ld_reference(ctx):
    """GNU ld 2.40 on the same instruction forms with absolute symbols: where ld rewrites, wild's rewritten bytes
    (decision via the hook + the relocation formulas above) must be the same instruction bytes; where ld keeps the
    GOT load because the value does not fit, wild must not produce a rewritten instruction with a different value."""
    d = ctx.scratch
    src = ".globl _start\n.text\n_start:\n"
    insns = [("488b05", "movq sym@GOTPCREL(%rip), %rax"), ("482b1d", "subq sym@GOTPCREL(%rip), %rbx"), ("483b0d", "cmpq sym@GOTPCREL(%rip), %rcx"),
             ("4c8b3d", "movq sym@GOTPCREL(%rip), %r15"), ("8b05", "movl sym@GOTPCREL(%rip), %eax")]
    for _, i in insns:
        src += "  " + i + "\n"
    src += "  ret\n"
    open(os.path.join(d, "ldref.s"), "w").write(src)
    if subprocess.run(["as", "ldref.s", "-o", "ldref.o"], cwd=d).returncode != 0:
        return
    res = []
    for S in (0x1234, 0x7fffffff, 0x80000000, 0xffffffff, 0xffffffff80000000, 0x100000000):
        p = subprocess.run(["ld", "ldref.o", "-o", "ldref.out", f"--defsym=sym=0x{S:x}"], cwd=d, stdout=subprocess.PIPE, stderr=subprocess.STDOUT)
        if p.returncode != 0:
            continue
        dis = subprocess.run(["objdump", "-d", "--no-show-raw-insn", "ldref.out"], cwd=d, stdout=subprocess.PIPE, text=True).stdout
        body = [l.split("\t")[-1].strip() for l in dis.split("\n") if l.startswith("  ") and "\t" in l]
        for (hx, text), ldline in zip(insns, body):
            w = bytes.fromhex(hx) + b"\0\0\0\0"
            rt = 42 if len(w) == 7 else 41
            out = ctx.impl_eval([req(rt, 0x9, 0, 0x6, len(w) - 4, -4, w)])[0]
            ld_relaxed = "(%rip)" not in ldline
            wild_ok = False
            if out != "none":
                t = out.split()
                f = dict(x.split("=") for x in t[1:6])
                wild_ok = new_field(int(f["rt"]), S, int(f["add"]), 0, 0) is not None
            ctx.count("ld-reference", f"ld={'relax' if ld_relaxed else 'keep'} wild={'relax' if wild_ok else ('error' if out != 'none' else 'keep')}")
            res.append((text, S, ldline, out, ld_relaxed, wild_ok))
            if wild_ok and not ld_relaxed:
                ctx.violation(f"ldref:{hx}", f"wild rewrites `{text}` for absolute sym=0x{S:x} although the value does not fit the rewritten form (GNU ld keeps the GOT load: {ldline})",
                              {"insn": text, "S": hex(S), "wild": out, "ld": ldline})
    ctx.sample({"ld_reference": [f"{t} S=0x{S:x}: ld `{l}` / wild {o.split()[0]} fits={ok}" for t, S, l, o, _, ok in res[:6]]}, cap=12)


def run(ctx):
    apx = "apx_f" in open("/proc/cpuinfo").read()
    if not apx:
        ctx.assumptions.append("this CPU has no apx_f: REX2 (0xd5) and EVEX (0x62) forms are not executed natively; they are covered by the model theorems and the correspondence only")
    # ---- correspondence model <-> real code
    lines = gen(ctx)
    for l in lines:
        ctx.count("r_type", l.split()[1])
    nt = lambda l, a, b: a != "none"
    dis, impl, model = ctx.differential("x86relax", lines, nontrivial=nt)
    for o in impl:
        ctx.count("outcome", o.split(" ")[0].split("(")[0])
    sweeps = gen_sweeps(ctx)
    dis2, impl2, model2 = ctx.differential("x86relax-sweep", sweeps, nontrivial=nt)
    ctx.cov["evaluations"] += 65535 * len(sweeps)
    ctx.count("sweep", "lines", len(sweeps))
    ctx.count("sweep", "windows", 65536 * len(sweeps))
    ctx.count("sweep", "relaxed-windows", sum(int(o.split()[1].split("=")[1]) for o in impl2 if o.startswith("n=")))
    # ---- native execution of everything well-formed that the real code rewrites
    diffs = native(ctx)
    if diffs:
        ctx.cov["impl_oracle_failures"] += len(diffs)
        seen = set()
        for rq, S, ob, nb, what in diffs:
            kind_key = "native:" + rq.split()[1] + ":" + ob[:len(ob) - 4].hex()
            if kind_key in seen:
                continue
            seen.add(kind_key)
            ctx.violation(kind_key, f"rewritten instruction differs from the original on this CPU: {ob.hex()} -> {nb.hex()} with S=0x{S:x}: {what}",
                          {"request": rq, "S": hex(S), "original_bytes": ob.hex(), "rewritten_bytes": nb.hex(), "difference": what,
                           "how": "echo '<request>' | /verif/.target/wvh/debug/wvh ; execute both byte strings with GOT slot = S (vlib/props/c14_native/runner.c)"})
    # ---- known finding: the decision never sees the addend (GNU ld requires addend == -4)
    forms = [(42, 0x9, 0, bytes.fromhex("488b0500000000"), 0), (42, 0x8, 0, bytes.fromhex("488b0500000000"), 0)]
    d4 = native(ctx, addend=4, forms=forms, sgrid=[0x1234])
    if d4:
        rq, S, ob, nb, what = d4[0]
        ctx.violation("gotpcrelx-addend-not-minus4",
                      f"`movq sym@GOTPCREL+8(%rip),%rax` (addend 4) is rewritten although it does not load sym's GOT slot: {ob.hex()} -> {nb.hex()}: {what}",
                      {"request": rq, "S": hex(S), "original_bytes": ob.hex(), "rewritten_bytes": nb.hex(), "difference": what,
                       "link": "printf '.globl _start\\n_start: movq sym@GOTPCREL+8(%%rip), %%rax\\n' | as -o e.o - && wild e.o -o e --defsym sym=0x1000 && objdump -d e"})
    # ---- GNU ld as second reference
    ld_reference(ctx)
    # ---- if the correspondence broke, try to turn the first disagreements into concrete semantic failures
    if dis or dis2:
        for l, a, b in (dis + dis2)[:3]:
            ctx.sample({"disagreement": l, "impl": a[:200], "model": b[:200]}, cap=16)
