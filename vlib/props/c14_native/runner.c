/* Native x86-64 snippet runner for C14.
 * Maps a fixed RWX region, and for every input line
 *     <id> <off>:<hex> <off>:<hex> ...
 * writes the given byte chunks at region+off (the region is re-zeroed first), calls region+0 as
 * `void f(void)` and prints `<id> <hex of region[OUT_OFF .. OUT_OFF+OUT_LEN)>`, or `<id> fault <signo>`
 * if the snippet raised SIGSEGV/SIGILL/SIGBUS/SIGFPE/SIGTRAP. All code/data layout is the caller's business. */
#define _GNU_SOURCE
#include <signal.h>
#include <setjmp.h>
#include <stdio.h>
#include <stdlib.h>
#include <string.h>
#include <sys/mman.h>
#include <ucontext.h>

#define BASE 0x10000000UL
#define SIZE 0x10000UL
#define OUT_OFF 0x4200
#define OUT_LEN (20 * 8)

static sigjmp_buf jb;
static volatile int in_snippet;
static char altstack[1 << 16];

static void on_sig(int sig, siginfo_t *si, void *uc) {
  (void)si; (void)uc;
  if (!in_snippet) _exit(3);
  siglongjmp(jb, sig);
}

static int hexv(int c) { return c <= '9' ? c - '0' : (c | 32) - 'a' + 10; }

int main(void) {
  unsigned char *m = mmap((void *)BASE, SIZE, PROT_READ | PROT_WRITE | PROT_EXEC,
                          MAP_PRIVATE | MAP_ANONYMOUS | MAP_FIXED_NOREPLACE, -1, 0);
  if (m != (void *)BASE) { perror("mmap"); return 2; }
  stack_t ss = {.ss_sp = altstack, .ss_size = sizeof altstack, .ss_flags = 0};
  sigaltstack(&ss, 0);
  struct sigaction sa;
  memset(&sa, 0, sizeof sa);
  sa.sa_sigaction = on_sig;
  sa.sa_flags = SA_SIGINFO | SA_ONSTACK | SA_NODEFER;
  int sigs[] = {SIGSEGV, SIGILL, SIGBUS, SIGFPE, SIGTRAP};
  for (unsigned i = 0; i < sizeof sigs / sizeof *sigs; i++) sigaction(sigs[i], &sa, 0);
  char *line = 0; size_t cap = 0;
  while (getline(&line, &cap, stdin) > 0) {
    char *p = line;
    char id[64]; int n = 0;
    while (*p && *p != ' ' && *p != '\n' && n < 63) id[n++] = *p++;
    id[n] = 0;
    memset(m, 0, SIZE);
    while (*p == ' ') {
      p++;
      unsigned long off = strtoul(p, &p, 16);
      if (*p != ':') break;
      p++;
      while (((*p >= '0' && *p <= '9') || ((*p | 32) >= 'a' && (*p | 32) <= 'f')) && off < SIZE) {
        m[off++] = (unsigned char)(hexv(p[0]) * 16 + hexv(p[1]));
        p += 2;
      }
    }
    int sig = sigsetjmp(jb, 1);
    if (sig == 0) {
      in_snippet = 1;
      ((void (*)(void))m)();
      in_snippet = 0;
      printf("%s ", id);
      for (int i = 0; i < OUT_LEN; i++) printf("%02x", m[OUT_OFF + i]);
      printf("\n");
    } else {
      in_snippet = 0;
      printf("%s fault %d\n", id, sig);
    }
  }
  fflush(stdout);
  return 0;
}
