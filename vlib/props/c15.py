"""C15 - Linker-script input-section patterns match as in GNU ld."""
import ctypes
import locale
import os
import struct
import subprocess

from vlib import runner

LEAN_MODULES = ["WildModel.Props.C15"]
THEOREMS = [
    "Wild.C15.lookup_first_match",
    "Wild.C15.keyed_match_key_exact",
    "Wild.C15.keyed_match_key_pref",
    "Wild.C15.keep_implies_must_keep",
    "Wild.C15.keep_any_witness",
    "Wild.C15.from_rules_lookup_total",
    "Wild.C15.glob_backslash_witness",
    "Wild.C15.glob_double_star_witness",
    "Wild.C15.glob_unterminated_bracket_witness",
    "Wild.C15.glob_caret_in_bracket_witness",
    "Wild.C15.glob_eq_fnmatch_full_false",
    "Wild.C15.rule_new_rejects_valid_witness",
    "Wild.C15.matchesFrom_sound",
    "Wild.C15.parse_agree",
    "Wild.C15.glob_accepts_and_agrees",
    "Wild.C15.glob_eq_fnmatch_chars",
    "Wild.C15.glob_eq_fnmatch_partial",
    "Wild.C15.glob_eq_fnmatch_ascii",
    "Wild.C15.glob_eq_fnmatch_star_question",
    "Wild.C15.section_rule_eq_fnmatch",
]
LEVEL = "proof"
NEEDS_WILD = True
TRUSTED = [
    "hand-written models lean/WildModel/Model/Glob.lean (glob_match.rs + glob crate 0.3.3 Pattern::new/matches, default MatchOptions) and "
    "Model/Rules.lean (SectionRule::new/matches, SectionRules::from_rules/lookup), tied by differential correspondence on generated inputs",
    "hashbrown HashTable::find(hash, eq) abstracted as: first entry in insertion order with the same 4-byte key for which eq holds "
    "(theorem keyed_match_key shows eq is false for entries with another key, so 7-bit tag collisions are harmless for ASCII patterns)",
    "POSIX fnmatch(.., 0) stated in lean/WildModel/Props/C15Spec.lean (C locale, no [:class:]); validated on every run against libc fnmatch through ctypes",
    "GNU ld 2.40 (/usr/bin/ld) as placement oracle for generated SECTIONS scripts (patterns without backslash: ld compares the literal "
    "prefix/suffix of a pattern bytewise, so it deviates from fnmatch for escapes itself)",
]
RULE = ("(rule list, section name, file name) triples: patterns derived from the name by generalisation (chars -> ?, substrings -> * / **, chars -> "
        "bracket classes incl. negated/ranges, escapes), leading wildcards, patterns shorter than 4 bytes, mutated non-matching patterns and random "
        "byte strings; a case is non-trivial if at least one rule matches per the libc oracle; distinct by request text")
ASSUMPTIONS = [
    "section header passed to lookup has should_exclude() == false (SHF_EXCLUDE handling is not part of this property)",
    "oracle comparison restricted to ASCII patterns/names inside the domain of the POSIX spec (no trailing backslash, no [:class:])",
]

K_BACKSLASH = "glob-class:backslash-in-glob"
K_DSTAR = "glob-class:double-star"
K_UNTERM = "glob-class:unterminated-bracket"
K_CARET = "glob-class:caret-inside-bracket"
K_KEEP_LATER = "link:keep-in-later-description"
K_MATCH_SYMTAB = "link:pattern-matches-symtab"

_libc = None


def libc_fnmatch(p, s):
    global _libc
    if _libc is None:
        locale.setlocale(locale.LC_ALL, "C")
        _libc = ctypes.CDLL("libc.so.6")
        _libc.fnmatch.argtypes = [ctypes.c_char_p, ctypes.c_char_p, ctypes.c_int]
    return _libc.fnmatch(p, s, 0) == 0


def hx(b):
    return b.hex() if b else "-"


def opt(b):
    return "_" if b is None else hx(b)


# ---------------------------------------------------------------- generators
NAMES = [b".text", b".text.foo", b".text.unlikely.bar", b".data", b".data.rel.ro", b".rodata.str1.1", b".init_array.100", b".bss",
         b"foo", b"ab", b"x", b"", b"my_sec", b".gnu.linkonce.t.f", b"abc.1", b".tdat", b"xfoo", b"a*b", b"a[b]", b"a\\b", b"q?", b".t", b"a/b/c",
         b"^caret", b"bang!x", b"dash-y"]
ALPHA = b"abcxyz019._-"
SPECIAL = b"*?[]\\^!-/"


def rand_name(r):
    if r.chance(3, 4):
        return r.choice(NAMES)
    n = r.below(11)
    return bytes((r.choice(SPECIAL) if r.chance(1, 6) else r.choice(ALPHA)) for _ in range(n))


def char_class(r, c):
    """A bracket expression that contains (or, negated, does not contain) byte c."""
    k = r.below(6)
    ch = bytes([c])
    others = bytes(r.choice(ALPHA) for _ in range(r.below(3)))
    if c in b"]\\^!-[":
        # awkward members: put them where POSIX allows them
        if c == ord("]"):
            return b"[]" + others + b"]"
        if c == ord("-"):
            return b"[" + others + b"-]"
        if c == ord("\\"):
            return b"[\\\\" + others + b"]"
        return b"[" + others + ch + b"]" if others else b"[x" + ch + b"]"
    if k == 0:
        return b"[" + ch + b"]"
    if k == 1:
        return b"[" + others + ch + b"]"
    if k == 2:
        lo = max(0x30, c - r.below(4))
        hi = min(0x7a, c + r.below(4))
        return b"[" + bytes([lo]) + b"-" + bytes([hi]) + b"]"
    if k == 3:
        neg = r.choice([b"!", b"^"])
        o = bytes(x for x in (others + b"Q") if x != c)
        return b"[" + neg + o + b"]"
    if k == 4:
        return b"[" + ch + b"-" + ch + others + b"]"
    return b"[" + ch + others + b"]"


def generalise(r, name, style=None):
    """A pattern that (mostly) matches `name`."""
    style = r.below(8) if style is None else style
    out = b""
    i = 0
    n = len(name)
    while i < n:
        c = name[i]
        k = r.below(16)
        special = c in b"*?[]\\"
        if k == 0:
            out += b"?"
        elif k == 1:
            j = r.range(i, n)
            out += b"*"
            i = j
            continue
        elif k == 2:
            out += char_class(r, c)
        elif k == 3 and style == 1:
            out += b"**"
            i = r.range(i, n)
            continue
        elif special or (k == 4 and style == 2):
            out += b"\\" + bytes([c])
        else:
            out += bytes([c])
        i += 1
    if style == 3:      # leading wildcard
        if n == 0:
            out = b"*"
        else:
            wc = r.choice([b"*", b"?", b"*", b"[!Q]"])
            cut = r.below(min(4, n)) if wc == b"*" else 1
            out = wc + generalise(r, name[cut:], 0)
    elif style == 4 and n >= 1:    # short pattern: keep fewer than 4 bytes
        cut = r.below(min(3, n)) + 0
        out = name[:cut] + b"*"
    elif style == 5 and n >= 2:    # wildcard inside the first four bytes
        p = r.below(min(4, n))
        out = name[:p] + r.choice([b"?", char_class(r, name[p])]) + generalise(r, name[p + 1:], 0)
    if r.chance(1, 10):
        out += b"*"
    return out


def mutate(r, pat):
    if not pat:
        return b"z"
    k = r.below(4)
    i = r.below(len(pat))
    if k == 0:
        return pat[:i] + pat[i + 1:]
    if k == 1:
        return pat[:i] + bytes([r.choice(ALPHA + SPECIAL)]) + pat[i:]
    if k == 2:
        return pat[:i] + bytes([r.choice(ALPHA + SPECIAL)]) + pat[i + 1:]
    return pat + bytes([r.choice(ALPHA)])


def rand_pattern(r, name):
    k = r.below(20)
    if k < 12:
        return generalise(r, name)
    if k < 15:
        return mutate(r, generalise(r, name))
    if k < 16:
        return name
    if k < 17:
        return r.choice([b"*", b"?", b"??", b"???", b"*.*", b"[.]*", b".*", b"a*", b"**", b"***", b"[", b"[]", b"[!]", b"[a", b"[a[^]", b"\\", b"a\\",
                         b"*foo", b".t*", b"[.]data", b"a\\*b*", b"a**b", b"**/x", b".text*", b".text.[a-f]*", b"[^.]*", b"[a-]", b"[]-a]x"])
    n = r.below(8)
    return bytes(r.choice(ALPHA + SPECIAL) for _ in range(n))


FILES = [b"a.o", b"b.o", b"crtbegin.o", b"lib-x.o", b"x", b"main.o"]


def rand_file_pattern(r, file):
    k = r.below(6)
    if k < 3:
        return generalise(r, file, 0)
    if k == 3:
        return mutate(r, generalise(r, file, 0))
    if k == 4:
        return file
    return r.choice([b"*", b"*.o", b"?.o", b"*crt*", b"[ab].o"])


def gen_lookup(r):
    name = rand_name(r)
    with_files = r.chance(1, 3)
    file = r.choice(FILES) if (with_files or r.chance(1, 2)) else None
    nrules = r.range(1, 6)
    rules = []
    for _ in range(nrules):
        ctor = "n"
        c = r.below(20)
        pat = rand_pattern(r, name)
        if c == 0 and len(name) >= 4:
            ctor, pat = "p", name[:r.range(4, len(name))]
        elif c == 1 and len(name) >= 4:
            ctor, pat = "e", name
        keep = r.chance(1, 3)
        fp = rand_file_pattern(r, file) if (with_files and file is not None and ctor == "n" and r.chance(1, 2)) else None
        rules.append((ctor, keep, pat, fp))
    return name, file, rules


def rule_str(rule):
    ctor, keep, pat, fp = rule
    return f"{ctor}{1 if keep else 0}:{hx(pat)}:{opt(fp)}"


# ---------------------------------------------------------------- oracle helpers
def ascii_ok(b):
    return all(0 < x < 128 for x in b)


class Spec:
    """Batch access to the Lean POSIX spec through the driver (domain / unterminated flags)."""

    def __init__(self, ctx):
        self.ctx = ctx
        self.cache = {}

    def load(self, pairs):
        todo = [pr for pr in set(pairs) if pr not in self.cache]
        if not todo:
            return
        out = self.ctx.model_eval([f"spec-fnmatch {hx(p)} {hx(s)}" for p, s in todo])
        for pr, o in zip(todo, out):
            t = o.split()
            self.cache[pr] = (None if t[0] == "X" else t[0] == "1", len(t) > 1)

    def get(self, p, s):
        return self.cache[(p, s)]


def classify(spec, pat, name, is_file=False):
    """Known class of a pattern for which wild's matching deviates from fnmatch; None = unexplained."""
    if is_file and b"\\" in pat:
        return K_BACKSLASH   # file patterns are never unescaped
    if b"\\" in pat and any(c in pat.replace(b"\\*", b"").replace(b"\\?", b"").replace(b"\\[", b"").replace(b"\\]", b"") for c in b"*?[]"):
        return K_BACKSLASH
    if b"\\" in pat and any(c in pat for c in b"*?[]"):
        # every metacharacter is escaped -> EscapedExact path; a deviation there is not a known class,
        # unless an escaped backslash hides one from this crude test
        if b"\\\\" in pat:
            return K_BACKSLASH
        return None
    if b"**" in pat:
        return K_DSTAR
    if spec.get(pat, name)[1]:
        return K_UNTERM
    if b"[^" in pat:
        rp = pat.replace(b"[^", b"[!")
        spec.load([(rp, name)])
        if spec.get(rp, name)[0] != spec.get(pat, name)[0] or spec.get(rp, name)[1]:
            return K_CARET
    return None


WHAT = {
    K_BACKSLASH: "a backslash escape in a section pattern that also has wildcards, or in any file pattern, is passed to the glob crate, which treats `\\` as an ordinary character",
    K_DSTAR: "`**` is the glob crate's recursive wildcard (error unless a whole path component) instead of fnmatch's `*`",
    K_UNTERM: "an unterminated `[` makes the pattern an error (`Invalid Glob Pattern`) instead of matching `[` literally",
    K_CARET: "`[^` is textually replaced by `[!` even inside a bracket expression, changing the set",
}


# ---------------------------------------------------------------- real links
def elf_sections(path):
    d = open(path, "rb").read()
    if d[:4] != b"\x7fELF":
        return None, d
    shoff, = struct.unpack_from("<Q", d, 0x28)
    shentsize, shnum, shstrndx = struct.unpack_from("<HHH", d, 0x3A)
    secs = []
    for i in range(shnum):
        name, typ, flags, addr, off, size = struct.unpack_from("<IIQQQQ", d, shoff + i * shentsize)
        secs.append([name, typ, off, size])
    stro = secs[shstrndx][2]
    for s in secs:
        e = d.index(b"\0", stro + s[0])
        s[0] = d[stro + s[0]:e].decode("latin1")
    return secs, d


def placement(path, tags):
    secs, d = elf_sections(path)
    res = {}
    if secs is None:
        return None
    for t in tags:
        pos = d.find(t)
        if pos < 0:
            res[t] = None
            continue
        # the output section that holds the tag: any section with file contents (a linker may give the output section the type of
        # another input it also matched, e.g. SHT_NOTE or SHT_STRTAB), PROGBITS preferred
        res[t] = next((s[0] for s in secs if s[1] == 1 and s[2] <= pos < s[2] + s[3]),
                      next((s[0] for s in secs if s[1] not in (0, 8) and s[2] <= pos < s[2] + s[3]), "?"))
    return res


SAFE = b"abcdxyz01._-"
LD_NAME_CHARS = b"abcdefghijklmnopqrstuvwxyzABCDEFGHIJKLMNOPQRSTUVWXYZ0123456789._-*?[]!^"


def gen_link_case(r):
    """Sections (name, file) x rules. Patterns without backslash; names assemblable."""
    nsec = r.range(3, 7)
    names = []
    pool = [b".text.foo", b".data.a", b".data.b", b"foo", b"ab", b"xfoo", b".tdat", b"abc.1", b"my_sec", b".rodata.k", b"x1", b".t", b"abcd", b"abce"]
    for _ in range(nsec):
        n = r.choice(pool) if r.chance(3, 4) else bytes(r.choice(SAFE) for _ in range(r.range(1, 8)))
        if n not in [x[0] for x in names] and n not in (b".text", b".", b".."):
            names.append((n, r.choice([b"a.o", b"b.o"])))
    rules = []
    for _ in range(r.range(1, 5)):
        base = r.choice(names)
        bad = b" ()\t\n;{}\"',=/\\"
        for _try in range(20):
            pat = generalise(r, base[0], r.choice([0, 0, 3, 4, 5]))
            # only characters GNU ld's script lexer passes through unchanged (it silently drops e.g. a backtick, which changes the pattern)
            if pat and b"**" not in pat and not any(c in pat for c in bad) and all(c in LD_NAME_CHARS for c in pat):
                break
        else:
            pat = base[0]
        fp = r.choice([None, None, b"a.o", b"b.o", b"?.o", b"[a].o", b"*.o"])
        rules.append((r.chance(1, 2), pat, fp))
    return names, rules


def run_links(ctx, n):
    r = ctx.rng.fork()
    d = os.path.join(ctx.scratch, "links")
    os.makedirs(d, exist_ok=True)
    done = 0
    for case in range(n):
        names, rules = gen_link_case(r)
        tags = {}
        src = {b"a.o": ".globl _start\n.section .text,\"ax\",@progbits\n_start: ret\n", b"b.o": ".section .text,\"ax\",@progbits\nnop\n"}
        for i, (nm, f) in enumerate(names):
            tag = f"@@T{case:03d}S{i:02d}@@".encode()
            tags[tag] = (nm, f)
            src[f] += f".section \"{nm.decode()}\",\"a\",@progbits\n.ascii \"{tag.decode()}\"\n"
        for f, s in src.items():
            sp = os.path.join(d, f.decode()[:-2] + ".s")
            open(sp, "w").write(s)
            subprocess.run(["as", sp, "-o", os.path.join(d, f.decode())], check=True)
        script = "SECTIONS {\n  .text : { *(.text) }\n"
        for i, (keep, pat, fp) in enumerate(rules):
            inner = f"{(fp or b'*').decode()}({pat.decode()})"
            script += f"  o{i} : {{ {'KEEP(' + inner + ')' if keep else inner} }}\n"
        script += "}\n"
        open(os.path.join(d, "s.ld"), "w").write(script)
        res = {}
        for who, exe in (("gnu", "ld"), ("wild", runner.WILD)):
            outp = os.path.join(d, f"out.{who}")
            if os.path.exists(outp):
                os.unlink(outp)
            p = subprocess.run([exe, "--gc-sections", "-T", "s.ld", "a.o", "b.o", "-o", outp], cwd=d, capture_output=True, text=True, timeout=60)
            res[who] = (p.returncode, placement(outp, list(tags)) if p.returncode == 0 and os.path.exists(outp) else None, p.stderr[-300:])
        ctx.note_case(("link", script, tuple(names)))
        ctx.count("links", "run")
        if res["gnu"][0] != 0:
            ctx.count("links", "gnu-ld-rejected")
            continue
        done += 1
        replay = {"script": script, "sections": [(a.decode(), b.decode()) for a, b in names], "wild_rc": res["wild"][0], "wild_stderr": res["wild"][2],
                  "how": "as a.s/b.s; ld|wild --gc-sections -T s.ld a.o b.o; compare output section containing each tag"}
        # wild applies the input-section patterns to the .symtab/.strtab/.shstrtab it generates itself (recorded defect): the link
        # then fails (`Invalid ELF section index`, `Expected zero address for section ...`) or puts those tables into the matching
        # output section, displacing the input sections that belong there
        hits_tables = any(libc_fnmatch(pat, x) for _, pat, _ in rules for x in (b".symtab", b".strtab", b".shstrtab"))
        if res["wild"][0] != 0 or res["wild"][1] is None:
            ctx.cov["impl_oracle_failures"] += 1
            cls = "panic" if "panicked" in res["wild"][2] else "error"
            if cls == "error" and hits_tables and ("Invalid ELF section index" in res["wild"][2] or "Expected zero address for section" in res["wild"][2]):
                ctx.count("known-class", K_MATCH_SYMTAB)
                ctx.violation(K_MATCH_SYMTAB, "a section pattern that also matches .symtab/.strtab/.shstrtab (e.g. `*`) makes the link fail with "
                              "`Invalid ELF section index`; GNU ld accepts it", replay)
                continue
            ctx.violation(f"link:wild-{cls}", f"wild fails ({cls}) on a SECTIONS script GNU ld accepts: {res['wild'][2][-160:]}", replay)
            continue
        diff = {t.decode(): (tags[t][0].decode(), res["gnu"][1][t], res["wild"][1][t]) for t in tags if res["gnu"][1][t] != res["wild"][1][t]}
        def keep_matches(nm, f):
            return any(k and libc_fnmatch(pat, nm) and (fp is None or libc_fnmatch(fp, f)) for k, pat, fp in rules)
        later = {t: v for t, v in diff.items() if v[2] is None and v[1] is not None and keep_matches(*tags[t.encode()])}
        if later:
            ctx.cov["impl_oracle_failures"] += 1
            ctx.count("known-class", K_KEEP_LATER)
            rp = dict(replay)
            rp["differences (section, gnu output section, wild output section)"] = later
            ctx.violation(K_KEEP_LATER, "GNU ld keeps a section matched by ANY KEEP description, wild only honours KEEP on the first matching "
                          f"description: {list(later.values())[:2]}", rp)
            diff = {t: v for t, v in diff.items() if t not in later}
        if diff and hits_tables and all(v[2] in (None, "?") for v in diff.values()):
            ctx.cov["impl_oracle_failures"] += 1
            ctx.count("known-class", K_MATCH_SYMTAB)
            rp = dict(replay)
            rp["differences (section, gnu output section, wild output section)"] = diff
            ctx.violation(K_MATCH_SYMTAB, "a section pattern that also matches .symtab/.strtab/.shstrtab puts those tables into the output section; the input "
                          f"sections that belong there are lost: {list(diff.values())[:2]}", rp)
            diff = {}
        if diff:
            ctx.cov["impl_oracle_failures"] += 1
            replay["differences (section, gnu output section, wild output section)"] = diff
            ctx.violation("link:placement", f"input section placed/kept differently from GNU ld: {list(diff.values())[:3]}", replay)
    ctx.count("links", "compared", done)


# ---------------------------------------------------------------- main
def run(ctx):
    r = ctx.rng
    quick = ctx.quick
    spec = Spec(ctx)

    # 0. validate the POSIX spec (Lean) against libc fnmatch
    pairs = []
    nval = 4000 if quick else 60000
    for _ in range(nval):
        name = rand_name(r)
        pat = rand_pattern(r, name)
        if ascii_ok(pat) and ascii_ok(name):
            pairs.append((pat, name))
    spec.load(pairs)
    nbad = 0
    nmatch = 0
    for p, s in set(pairs):
        v, unterminated = spec.get(p, s)
        if v is None:
            ctx.count("spec-validation", "outside-domain")
            continue
        exp = libc_fnmatch(p, s)
        nmatch += exp
        if v != exp:
            if unterminated:
                ctx.count("spec-validation", "glibc-unterminated-bracket-deviation")
                continue
            nbad += 1
            if nbad <= 3:
                ctx.broken.append(f"POSIX spec (C15Spec.fnmatch) disagrees with libc fnmatch on pattern={p!r} string={s!r}: spec={v} libc={exp}")
    ctx.count("spec-validation", "pairs", len(set(pairs)))
    ctx.count("spec-validation", "matching", nmatch)

    # 1. differential: model vs real code
    lines = []
    cases = []
    n = 5000 if quick else 150000
    for _ in range(n):
        name, file, rules = gen_lookup(r)
        cases.append((name, file, rules))
        lines.append(f"rules-lookup {hx(name)} {opt(file)} " + " ".join(rule_str(x) for x in rules))
    single = []
    for _ in range(n // 2):
        name = rand_name(r)
        pat = rand_pattern(r, name)
        if r.chance(1, 40):
            pat = pat + bytes([r.choice([0xC3, 0xA9, 0xE2, 0x82, 0xAC, 0xFF, 0xF0, 0x9F, 0x98, 0x80])])
        if r.chance(1, 40):
            name = name + r.choice([b"\xc3\xa9", b"\xe2\x82\xac", b"\xff", b"\xf0\x9f\x98\x80", b"\xc3"])
        single.append((pat, name))
        lines.append(f"rule-match n0:{hx(pat)}:_ {hx(name)} _")
        k = r.below(4)
        if k == 0:
            lines.append(f"glob-analyze {hx(pat)}")
        elif k == 1:
            lines.append(f"glob-unescape {hx(pat)}")
        elif k == 2:
            lines.append(f"glob-match {hx(pat)} {hx(name)}")
        else:
            lines.append(f"rule-new {hx(pat)} {opt(r.choice([None, b'*.o', b'[', b'a**']))}")
    for l in lines:
        ctx.count("op", l.split()[0])
    dis, impl, model = ctx.differential("rules", lines)

    # 2. oracle on the implementation's answers
    want = []
    for name, file, rules in cases:
        for ctor, keep, pat, fp in rules:
            want.append((pat, name))
            if fp is not None and file is not None:
                want.append((fp, file))
    want += single
    spec.load([w for w in want if ascii_ok(w[0]) and ascii_ok(w[1])])

    def fm(p, s):
        """(expected match per libc fnmatch, in-domain)"""
        if not (ascii_ok(p) and ascii_ok(s)):
            return None
        if spec.get(p, s)[0] is None:
            return None
        return libc_fnmatch(p, s)

    reported = set()

    def report(cls, what, replay):
        ctx.cov["impl_oracle_failures"] += 1
        if cls in reported:
            return
        reported.add(cls)
        ctx.violation(cls, what, replay)

    for line, out in zip(lines, impl):
        if out.startswith("panic") or out == "crash":
            report("panic:" + line.split()[0], f"panic on a syntactically valid pattern: {line} -> {out}",
                   {"request": line, "observed": out, "how": "echo '<request>' | /verif/.target/wvh/debug/wvh"})
    # single rule matches
    idx = len(cases)
    li = idx
    for pat, name in single:
        out = impl[li]
        li += 2
        exp = fm(pat, name)
        if exp is None:
            ctx.count("oracle", "outside-domain")
            continue
        ctx.count("oracle", "match" if exp else "no-match")
        got = {"1": True, "0": False}.get(out)
        if got != exp:
            cls = classify(spec, pat, name)
            replay = {"pattern": pat.decode("latin1"), "name": name.decode("latin1"), "fnmatch": exp, "wild": out,
                      "how": f"echo 'rule-match n0:{hx(pat)}:_ {hx(name)} _' | /verif/.target/wvh/debug/wvh"}
            if cls:
                ctx.count("known-class", cls)
                report(cls, WHAT[cls] + f" (e.g. pattern {pat!r} name {name!r}: fnmatch={exp} wild={out})", replay)
            else:
                report("glob-mismatch:" + hx(pat), f"pattern {pat!r} vs name {name!r}: fnmatch={exp}, wild={out}", replay)
    # lookups
    for (name, file, rules), line, out in zip(cases, lines, impl):
        exp = "none"
        indomain = True
        involved = []
        for i, (ctor, keep, pat, fp) in enumerate(rules):
            if ctor == "p":
                m = name.startswith(pat)
            elif ctor == "e":
                m = name == pat
            else:
                m = fm(pat, name)
                involved.append((pat, name, False))
            if m is None:
                indomain = False
                break
            if m and fp is not None:
                if file is None:
                    m = False
                else:
                    m = fm(fp, file)
                    involved.append((fp, file, True))
                    if m is None:
                        indomain = False
                        break
            if m:
                exp = f"{i} {1 if keep else 0}"
                break
        if not indomain:
            ctx.count("oracle", "lookup-outside-domain")
            continue
        # rules after the first match still have to be constructible; all involved patterns are valid fnmatch patterns
        for ctor, keep, pat, fp in rules:
            if ctor == "n" and (pat, name, False) not in involved and ascii_ok(pat) and ascii_ok(name):
                involved.append((pat, name, False))
            if fp is not None and file is not None and (fp, file, True) not in involved and ascii_ok(fp):
                involved.append((fp, file, True))
        if not name:
            exp_alt = "other-outcome" if exp == "none" else exp
        else:
            exp_alt = exp
        ctx.count("oracle", "lookup-hit" if exp != "none" else "lookup-miss")
        if out != exp_alt:
            spec.load([pr[:2] for pr in involved if ascii_ok(pr[0]) and ascii_ok(pr[1])])
            if out.startswith("err") and any(spec.get(p, s)[0] is None for p, s, f in involved if ascii_ok(p) and ascii_ok(s)):
                # a rule that was not needed for the expected answer has a pattern outside the domain of the fnmatch spec
                # (collating symbols / equivalence classes `[.` `[=`): the oracle has no opinion on whether it is constructible
                ctx.count("oracle", "lookup-outside-domain")
                continue
            classes = [c for c in (classify(spec, p, s, f) for p, s, f in involved if ascii_ok(p) and ascii_ok(s)) if c]
            replay = {"request": line, "rules": [(c, k, p.decode("latin1"), None if f is None else f.decode("latin1")) for c, k, p, f in rules],
                      "name": name.decode("latin1"), "file": None if file is None else file.decode("latin1"),
                      "expected (first matching rule per libc fnmatch: index keep)": exp_alt, "wild": out,
                      "how": "echo '<request>' | /verif/.target/wvh/debug/wvh"}
            if out.startswith("panic"):
                continue  # already reported
            if classes:
                ctx.count("known-class", classes[0])
                report(classes[0], WHAT[classes[0]] + f" (lookup {line.split()[1]}: expected {exp_alt}, wild {out})", replay)
            else:
                report("lookup:first-match", f"lookup does not return the first matching rule: expected {exp_alt}, wild {out}", replay)
        elif exp != "none" and out.split()[1] != ("1" if rules[int(out.split()[0])][1] else "0"):
            report("lookup:keep", "KEEP flag of the matching rule lost", {"request": line, "wild": out})

    if dis and not any(k for k in reported if k.startswith(("lookup:", "glob-mismatch:", "panic:"))):
        l, a, mo = dis[0]
        ctx.violation("correspondence:rules", f"real code and model disagree on {len(dis)} request(s); first: impl={a!r} model={mo!r}",
                      {"request": l, "impl": a, "model": mo, "how": "echo '<request>' | /verif/.target/wvh/debug/wvh ; ... | /verif/lean/.lake/build/bin/wmdriver"},
                      found_input=False)

    # 3. real links: wild vs GNU ld
    run_links(ctx, 5 if quick else 80)
