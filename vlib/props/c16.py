"""C16 - Linker-script expressions evaluate as in GNU ld."""
import os
import subprocess

from vlib import runner

LEAN_MODULES = ["WildModel.Props.C16"]
THEOREMS = [
    "Wild.Expr.binVal_eq_gnuBin",
    "Wild.Expr.unVal_eq_gnuUn",
    "Wild.Expr.eval_eq_gnu",
    "Wild.Expr.eval_agrees_gnu",
    "Wild.Expr.eval_full_witness_align0",
    "Wild.Expr.eval_full_witness_shortcircuit",
    "Wild.Expr.assert_fails_iff",
    "Wild.Expr.assert_passes_iff",
    "Wild.Expr.run_mono",
    "Wild.Expr.parse_pretty_generic",
    "Wild.Expr.parse_pretty_wild",
    "Wild.Expr.refParse_pretty",
    "Wild.Expr.parse_ref_witness",
    "Wild.Expr.pretty_c_eq_wild_of_noCmp",
    "Wild.Expr.parse_eq_ref_partial",
    "Wild.Expr.parse_total",
]
LEVEL = "proof"
NEEDS_WILD = True
TRUSTED = [
    "hand-written model lean/WildModel/Model/Expr.lean of linker_script.rs (parse_expression..parse_primary, split into lex + token-level climber) "
    "and expression_eval.rs (evaluate_expression, ASSERT test), tied by the differential correspondences expr-parse / expr-eval on generated text",
    "reference side lean/WildModel/Props/C16Spec.lean (cTable = ldgram.y precedence, gnuEval = ldexp.c values), validated on every run against "
    "/usr/bin/ld 2.40 through ASSERT scripts; ld 2.40's lexer rejects '^' in expressions, so '^' follows ldgram.y / C only",
    "the fuel bound fuelFor of the token-level climber (adequate for every pretty-printed tree by theorem parse_pretty_generic; "
    "for arbitrary token lists by differential testing only)",
]
RULE = ("structured stream: random trees over all 17 binary / 3 unary operators, MIN/MAX/ALIGN, boundary literals (0,1,2^63,2^64-1, shift counts >= 64, K/M "
        "suffixes, hex/dec), rendered with C-minimal, wild-minimal, full or random extra parentheses and random whitespace; malformed stream: "
        "character mutations of grammatical text plus a crafted list; non-trivial = the implementation returned a tree / value (not err); "
        "distinct by request text. Every implementation value is compared with the independent Python statement of GNU ld's semantics; a sample is "
        "linked with the real /usr/bin/ld (spec validation) and the real wild binary (ASSERT pass/fail of the link).")
ASSUMPTIONS = [
    "location counter is 0 where ASSERT expressions are evaluated (expression_eval.rs treats '.' as 0; ALIGN(n) aligns 0)",
    "expressions over numeric literals only: symbols, SIZEOF/ADDR/... are parsed by the model but excluded from the value theorems",
]
EXPLANATION = ("Two deviations from GNU ld are recorded as known findings and not repaired: (1) parse_comparison sits between parse_logical_and and "
               "parse_bitwise_or, so comparisons bind looser than | ^ & and are non-associative (two existing unit tests assert this order, so the "
               "reordering patch scratch/c16/c16-precedence-proposal.diff is not applied); (2) && and || short-circuit, hiding '/ by zero' in the "
               "unevaluated operand, where ld evaluates both operands. Unsigned division is repaired by scratch/fixes/c16-division.diff.")

M = (1 << 64) - 1
KEY_PREC = "parse_comparison-above-parse_bitwise_or"
KEY_SC = "logical-short-circuit-hides-error"

BIN = ["lor", "land", "bor", "bxor", "band", "eq", "ne", "lt", "gt", "le", "ge", "shl", "shr", "add", "sub", "mul", "div"]
SYM = {"lor": "||", "land": "&&", "bor": "|", "bxor": "^", "band": "&", "eq": "==", "ne": "!=", "lt": "<", "gt": ">", "le": "<=", "ge": ">=",
       "shl": "<<", "shr": ">>", "add": "+", "sub": "-", "mul": "*", "div": "/"}
UN = {"lnot": "!", "bnot": "~", "neg": "-"}
# independent copy of the C / ldgram.y table (higher binds tighter), all left-associative
C_LVL = {"lor": 0, "land": 1, "bor": 2, "bxor": 3, "band": 4, "eq": 5, "ne": 5, "lt": 6, "gt": 6, "le": 6, "ge": 6, "shl": 7, "shr": 7,
         "add": 8, "sub": 8, "mul": 9, "div": 9}
C_NL = 10
# the order of the functions in linker_script.rs (only used to render "wild-minimal" text and to name the known finding)
W_LVL = {"lor": 0, "land": 1, "eq": 2, "ne": 2, "lt": 2, "gt": 2, "le": 2, "ge": 2, "bor": 3, "bxor": 4, "band": 5, "shl": 6, "shr": 6,
         "add": 7, "sub": 7, "mul": 8, "div": 8}
W_NL = 9
CMP = {"eq", "ne", "lt", "gt", "le", "ge"}


# ---------------------------------------------------------------- trees: ("num", v, text) | ("bin", op, a, b) | ("un", op, a) | ("min"|"max", a, b) | ("align", a)
def lit_text(r, v):
    forms = []
    forms.append(str(v))
    forms.append(("0x%x" if r.chance(1, 2) else "0X%X") % v)
    if v and v % 1024 == 0:
        forms.append(str(v // 1024) + r.choice("Kk"))
        forms.append("0x%x%s" % (v // 1024, r.choice("Kk")))
    if v and v % (1 << 20) == 0:
        forms.append(str(v >> 20) + r.choice("Mm"))
    return r.choice(forms)


BOUNDARY = [0, 1, 2, 3, 7, 8, 63, 64, 65, 127, 128, 1024, 4096, 1 << 20, (1 << 31) - 1, 1 << 31, (1 << 32) - 1, 1 << 32, (1 << 63) - 1, 1 << 63,
            (1 << 63) + 1, M, M - 1, M - 7]


def gen_lit(r):
    k = r.below(10)
    if k < 5:
        v = r.choice(BOUNDARY)
    elif k < 7:
        v = r.below(20)
    elif k == 7:
        # a K/M literal that wraps around 2^64 when the suffix is applied
        base = r.choice([M, 1 << 54, (1 << 54) + 1, 1 << 44, M >> 3])
        suf = r.choice("KkMm")
        v = (base * (1024 if suf in "Kk" else 1 << 20)) & M
        return ("num", v, ("0x%x" % base if r.chance(1, 2) else str(base)) + suf)
    else:
        v = r.u64_interesting()
    return ("num", v, lit_text(r, v))


def gen_tree(r, depth):
    if depth <= 0 or r.chance(1, 4):
        return gen_lit(r)
    k = r.below(20)
    if k < 13:
        op = r.choice(BIN)
        a = gen_tree(r, depth - 1)
        b = gen_tree(r, depth - 1)
        if op in ("shl", "shr") and r.chance(1, 2):
            b = ("num", 0, "0")
            v = r.choice([0, 1, 31, 32, 63, 64, 65, 127, 128, 1 << 32, (1 << 32) + 1, M])
            b = ("num", v, lit_text(r, v))
        if op == "div" and r.chance(1, 3):
            # negative dividend / divisor via 0-x
            a = ("bin", "sub", ("num", 0, "0"), a)
        return ("bin", op, a, b)
    if k < 16:
        return ("un", r.choice(list(UN)), gen_tree(r, depth - 1))
    if k < 18:
        return (r.choice(["min", "max"]), gen_tree(r, depth - 1), gen_tree(r, depth - 1))
    if k == 18:
        return ("align", gen_tree(r, depth - 1))
    return ("bin", "sub", ("num", 0, "0"), gen_lit(r))


def sexp(t):
    k = t[0]
    if k == "num":
        return "0x%x" % t[1]
    if k == "bin":
        return "(%s %s %s)" % (t[1], sexp(t[2]), sexp(t[3]))
    if k == "un":
        return "(%s %s)" % (t[1], sexp(t[2]))
    if k in ("min", "max"):
        return "(%s %s %s)" % (k, sexp(t[1]), sexp(t[2]))
    return "(align %s)" % sexp(t[1])


def level(t, lvl, nl):
    if t[0] == "bin":
        return lvl[t[1]]
    if t[0] == "un":
        return nl
    return nl + 1


def render(t, r, lvl, nl, nonassoc=(), extra=0, ws=True, full=False):
    """Text of tree t whose parse under table (lvl, all levels left-assoc except `nonassoc`) is t; `extra`/8 = probability of redundant parens."""
    def sp():
        if not ws:
            return ""
        k = r.below(12)
        return ["", "", "", " ", " ", " ", " ", "  ", "\t", "\n", " \r\n", " "][k]

    def at(x, need):
        s = go(x)
        if full and x[0] != "num":
            return "(" + sp() + s + sp() + ")"
        if level(x, lvl, nl) < need or (extra and r.below(8) < extra):
            return "(" + sp() + s + sp() + ")"
        return s

    def go(x):
        k = x[0]
        if k == "num":
            return x[2]
        if k == "bin":
            l = lvl[x[1]]
            la = l + 1 if l in nonassoc else l
            a = at(x[2], la)
            b = at(x[3], l + 1)
            # keep `- -x` and `x - -y` apart only by optional whitespace: "--" is not a token in either linker
            return a + sp() + SYM[x[1]] + sp() + b
        if k == "un":
            return UN[x[1]] + sp() + at(x[2], nl)
        if k in ("min", "max"):
            return k.upper() + sp() + "(" + sp() + go(x[1]) + sp() + "," + sp() + go(x[2]) + sp() + ")"
        return "ALIGN" + sp() + "(" + sp() + go(x[1]) + sp() + ")"

    return sp() + at(t, 0) + sp()


# ---------------------------------------------------------------- independent statement of GNU ld's values (Python integers)
class NoValue(Exception):
    pass


def s64(x):
    return x - (1 << 64) if x >> 63 else x


def gnu_eval(t):
    """Value GNU ld computes (both operands of every binary operator are evaluated); raises NoValue when ld reports an error or crashes."""
    k = t[0]
    if k == "num":
        return t[1]
    if k == "un":
        a = gnu_eval(t[2])
        return {"lnot": int(a == 0), "bnot": a ^ M, "neg": (-a) & M}[t[1]]
    if k in ("min", "max"):
        a, b = gnu_eval(t[1]), gnu_eval(t[2])
        return min(a, b) if k == "min" else max(a, b)
    if k == "align":
        gnu_eval(t[1])
        return 0
    op = t[1]
    a, b = gnu_eval(t[2]), gnu_eval(t[3])
    if op == "add":
        return (a + b) & M
    if op == "sub":
        return (a - b) & M
    if op == "mul":
        return (a * b) & M
    if op == "div":
        if b == 0:
            raise NoValue("/ by zero")
        if a == 1 << 63 and b == M:
            raise NoValue("INT64_MIN / -1 (ld 2.40 dies with SIGFPE)")
        x, y = s64(a), s64(b)
        q = abs(x) // abs(y)
        return (q if (x < 0) == (y < 0) else -q) & M
    if op in CMP:
        return int({"eq": a == b, "ne": a != b, "lt": a < b, "gt": a > b, "le": a <= b, "ge": a >= b}[op])
    if op == "band":
        return a & b
    if op == "bor":
        return a | b
    if op == "bxor":
        return a ^ b
    if op == "shl":
        return (a << (b % 64)) & M
    if op == "shr":
        return a >> (b % 64)
    if op == "land":
        return int(a != 0 and b != 0)
    if op == "lor":
        return int(a != 0 or b != 0)
    raise AssertionError(op)


def gnu_value(t):
    try:
        return gnu_eval(t)
    except NoValue:
        return None


def has_align0(t):
    """ALIGN whose GNU value of the operand is 0 somewhere in the tree (wild rejects these: 'ALIGN(0) is invalid')."""
    if t[0] == "num":
        return False
    if t[0] == "align":
        return gnu_value(t[1]) == 0 or has_align0(t[1])
    return any(has_align0(x) for x in t[1:] if isinstance(x, tuple))


def ops_of(t, acc=None):
    acc = set() if acc is None else acc
    if t[0] != "num":
        acc.add(t[1] if t[0] in ("bin", "un") else t[0])
        for x in t[1:]:
            if isinstance(x, tuple):
                ops_of(x, acc)
    return acc


def hx(text):
    b = text.encode("latin-1")
    return b.hex() if b else "-"


# ---------------------------------------------------------------- malformed stream
CRAFTED = ["", " ", "(", ")", "()", "1 +", "+ 1", "1 1", "1 < 2 < 3", "1 == 1 == 1", "1 <= 2 >= 1", "1 ? 2 : 3", "7 % 3", "010", "0x", "0xg", "0x 10", "1 K",
           "1KK", "1Kb", "0x11111111111111111", "0x00000000000000001", "0x0000000000000001", "18446744073709551615", "18446744073709551616",
           "99999999999999999999999", "1 /* c */ + 1", "1 # c", "1|||2", "1&&&2", "1 & &2", "1<<<2", "1>>>2", "1<<=2", "1===1", "1 = 1", "!=1", "! =1",
           "!!1", "~~1", "- - 1", "--1", "1--1", "1-!-~1", "MIN(1)", "MIN(1,2,3)", "MIN 1,2)", "MAX(1,2", "ALIGN()", "ALIGN(1,2)", "min(1,2)", "FOO(1)",
           "MIN (1 , 2)", "ALIGN\t(8)", "SIZEOF(.text)", "SIZEOF( .text )", "SIZEOF(1abc)", "SIZEOF()", "ADDR(.x) + LOADADDR(y)", "ORIGIN(ram) + LENGTH(ram)",
           "ALIGNOF(.data)", ". + 1", ".", "..", ". .", "foo", "foo bar", "foo(1)", "_a.b + 1", "1.5", "1 + a1", "1a", "0xK", "0x1K", "0X1m", "1M", "1k",
           "((((((((((1))))))))))", "((1)", "(1))", "1,2", "1 \x0b+ 2", "1 \x0c+ 2", "\xe9", "1 + \xff", "1\r\n+\t2", "0 && 1/0", "1 || 1/0", "1/0", "ALIGN(0)",
           "ALIGN(1-1)", "1/(1-1)", "0x8000000000000000/(0-1)", "(0-8)/2", "1 | 2 == 2", "4 & 4 == 4", "1 ^ 1 == 1", "2 == 2 > 0", "1 << 64", "1 << 65",
           "1 >> 0x100000001", "-1 >> 63", "!0 + !1", "~0 * 2", "-2 * 3", "1 - -1", "MIN(0-1, 1)", "MAX(0-1, 1)", "MIN(MAX(1,2),ALIGN(8))"]
ALPHABET = "()+-*/<>=!&|^~, 01289xXKkMmafAF_.zZ \t\n%?:"


def mutate(r, text):
    cs = list(text)
    for _ in range(1 + r.below(3)):
        k = r.below(4)
        pos = r.below(len(cs) + 1)
        if k == 0 and cs:
            del cs[min(pos, len(cs) - 1)]
        elif k == 1:
            cs.insert(pos, r.choice(ALPHABET))
        elif k == 2 and cs:
            cs[min(pos, len(cs) - 1)] = r.choice(ALPHABET)
        elif cs:
            i = min(pos, len(cs) - 1)
            cs.insert(i, cs[i])
    return "".join(cs)


# ---------------------------------------------------------------- real linkers
def link_assert(linker, scratch, obj, assertion, tag):
    script = os.path.join(scratch, f"a_{tag}.ld")
    with open(script, "w") as f:
        f.write(f'ASSERT({assertion}, "c16-assertion-fired")\n')
    p = subprocess.run([linker, "-o", os.path.join(scratch, f"out_{tag}"), obj, script], stdout=subprocess.PIPE, stderr=subprocess.STDOUT, text=True, timeout=120)
    out = p.stdout
    if p.returncode == 0:
        return "pass", out
    if "c16-assertion-fired" in out:
        return "fired", out
    return "error", out


def make_object(ctx):
    src = os.path.join(ctx.scratch, "t.s")
    obj = os.path.join(ctx.scratch, "t.o")
    with open(src, "w") as f:
        f.write(".globl _start\n.text\n_start: ret\n")
    rc, out = runner.sh(["as", src, "-o", obj])
    if rc != 0:
        raise runner.BuildError("as failed: " + out)
    return obj


# ---------------------------------------------------------------- the check
def run(ctx):
    r = ctx.rng
    n_struct = 6000 if ctx.quick else 150000
    n_mal = 3000 if ctx.quick else 60000
    n_ld = 40 if ctx.quick else 600
    n_wild = 16 if ctx.quick else 200

    cases = []  # (text, tree or None, style)
    # corpus of past findings first
    seeds = [("bin", "eq", ("bin", "div", ("bin", "sub", ("num", 0, "0"), ("num", 8, "8")), ("num", 2, "2")), ("bin", "sub", ("num", 0, "0"), ("num", 4, "4"))),
             ("bin", "eq", ("bin", "bor", ("num", 1, "1"), ("bin", "eq", ("num", 2, "2"), ("num", 2, "2"))), ("num", 1, "1")),
             ("bin", "land", ("num", 0, "0"), ("bin", "div", ("num", 1, "1"), ("num", 0, "0")))]
    for t in seeds:
        cases.append((render(t, r, C_LVL, C_NL, ws=False), t, "c-min"))
    for i in range(n_struct):
        t = gen_tree(r, 1 + r.below(5))
        style = r.below(8)
        if style < 4:
            cases.append((render(t, r, C_LVL, C_NL, extra=r.choice([0, 0, 1, 3]), ws=r.chance(3, 4)), t, "c-min"))
        elif style < 6:
            # minimal parentheses for wild's own table: the reference tree is what the C grammar makes of that text, not t
            cases.append((render(t, r, W_LVL, W_NL, nonassoc=(2,), ws=r.chance(3, 4)), None, "wild-min"))
        else:
            cases.append((render(t, r, C_LVL, C_NL, full=True, ws=r.chance(1, 2)), t, "full"))
    n_structured = len(cases)
    for c in CRAFTED:
        cases.append((c, None, "crafted"))
    for i in range(n_mal):
        base = cases[r.below(n_structured)][0]
        cases.append((mutate(r, base), None, "mutated"))

    parse_lines = ["expr-parse " + hx(c[0]) for c in cases]
    eval_lines = ["expr-eval " + hx(c[0]) for c in cases]
    nt = lambda l, a, b: not a.startswith("err")
    dis_p, impl_p, model_p = ctx.differential("expr-parse", parse_lines, nontrivial=nt)
    dis_e, impl_e, model_e = ctx.differential("expr-eval", eval_lines, nontrivial=nt)
    # reference side of the Lean development (C-table parser + gnuEval) on the same text
    ref_p = ctx.model_eval(["expr-ref " + hx(c[0]) for c in cases])
    ref_v = ctx.model_eval(["expr-gnu " + hx(c[0]) for c in cases])

    for (text, t, style), ip, ie in zip(cases, impl_p, impl_e):
        ctx.count("style", style)
        ctx.count("impl-parse", "tree" if not ip.startswith("err") else "err")
        ctx.count("impl-eval", ie if ie.startswith("err") else "value")
        if t is not None:
            for o in ops_of(t):
                ctx.count("operator", o)

    # (1) the Lean reference side agrees with the independent Python statement on every case where Python knows the tree
    for (text, t, style), rp, rv in zip(cases, ref_p, ref_v):
        if t is None:
            continue
        gv = gnu_value(t)
        want_v = "none" if gv is None else "0x%x" % gv
        if rp != sexp(t) or rv != want_v:
            ctx.broken.append(f"reference side disagrees with the Python statement of GNU ld on {text!r}: refParse={rp} gnuEval={rv}, python tree={sexp(t)} value={want_v}")
            break

    # (2) implementation vs the reference on every case: tree (C grammar) and value (GNU ld)
    n_viol = 0
    eval_devs = []
    for (text, t, style), ip, ie, rp, rv in zip(cases, impl_p, impl_e, ref_p, ref_v):
        if ip.startswith("err") or ip.startswith("panic") or ip == "crash":
            if ip != "err":
                ctx.cov["impl_oracle_failures"] += 1
                ctx.violation("parser-crash", f"expression parser crashed on {text!r}: {ip}", {"text": text, "request": "expr-parse " + hx(text)})
            continue  # not accepted by wild: outside the property
        if rp == "err":
            continue  # accepted by wild but not by the reference grammar (never seen; symbols etc. are in both)
        tree_differs = ip != rp
        if tree_differs:
            ctx.count("tree-vs-reference", "differs")
        if rv.startswith("0x") and ie.startswith("0x") and ie != rv:
            ctx.cov["impl_oracle_failures"] += 1
            n_viol += 1
            if tree_differs:
                has_cmp = any(s in text for s in ("==", "!=", "<", ">"))
                key = KEY_PREC if has_cmp else "precedence:" + ip.split(" ")[0].strip("(")
                ctx.violation(key, f"wild parses {text!r} as {ip}, GNU ld / C as {rp}: value {ie} instead of {rv}",
                              {"text": text, "wild_tree": ip, "reference_tree": rp, "wild_value": ie, "gnu_value": rv,
                               "how": f"printf 'ASSERT(({text}) == {rv}, \"x\")' > s.ld; ld t.o s.ld passes, wild t.o s.ld fails"})
            else:
                eval_devs.append((len(ip), text, ip, ie, rv))
        elif rv == "none" and ie.startswith("0x") and not tree_differs:
            # GNU ld has no value (error in an operand); wild produced one
            if "land" in ip or "lor" in ip:
                ctx.violation(KEY_SC, f"wild evaluates {text!r} to {ie}; GNU ld reports an error (it evaluates both operands of && / ||)",
                              {"text": text, "tree": ip, "wild_value": ie})
            elif "0x8000000000000000" in ip or "div" in ip:
                pass  # INT64_MIN / -1: ld 2.40 crashes, there is no reference value
        elif rv.startswith("0x") and ie == "err:align0":
            ctx.count("rejected-by-wild", "ALIGN(0)")
        elif rv.startswith("0x") and ie.startswith("err") and not tree_differs:
            ctx.cov["impl_oracle_failures"] += 1
            ctx.violation("eval-rejects", f"wild rejects {text!r} with {ie}; GNU ld computes {rv}", {"text": text, "tree": ip, "gnu_value": rv})

    # one VIOLATION per breakage: report the smallest deviating tree (all of them are counted in impl_oracle_failures)
    if eval_devs:
        eval_devs.sort()
        _, text, ip, ie, rv = eval_devs[0]
        ops = sorted(set(ip.replace("(", " ").replace(")", " ").split()) & set(BIN + list(UN) + ["min", "max", "align"]))
        ctx.violation("eval:" + "+".join(ops), f"wild evaluates {text!r} (tree {ip}) to {ie}, GNU ld to {rv} ({len(eval_devs)} deviating expressions in this run)",
                      {"text": text, "tree": ip, "wild_value": ie, "gnu_value": rv, "deviating_expressions": len(eval_devs),
                       "more": [d[1] for d in eval_devs[1:6]],
                       "how": f"printf 'ASSERT(({text}) == {rv}, \"x\")' > s.ld; ld t.o s.ld passes, wild t.o s.ld fails; "
                              f"in-process: echo 'expr-eval {hx(text)}' | /verif/.target/wvh/debug/wvh"})

    # (3) real linkers on a sample: validates the reference against GNU ld 2.40 and observes ASSERT pass/fail of real wild links
    obj = make_object(ctx)
    pool = [(text, t) for (text, t, style) in cases[:n_structured] if t is not None and "^" not in text and "\n" not in text and "\r" not in text
            and "\t" not in text and gnu_value(t) is not None and not has_align0(t)]
    # boundary-heavy first, then spread
    sample = pool[:3] + [pool[(i * 7919) % len(pool)] for i in range(n_ld)] if pool else []
    n_ld_done = 0
    for i, (text, t) in enumerate(sample):
        v = gnu_value(t)
        a, _ = link_assert("/usr/bin/ld", ctx.scratch, obj, f"({text}) == 0x{v:x}", f"ld{i}p")
        b, out_b = link_assert("/usr/bin/ld", ctx.scratch, obj, f"({text}) != 0x{v:x}", f"ld{i}n")
        n_ld_done += 1
        if a != "pass" or b != "fired":
            ctx.broken.append(f"reference value not confirmed by /usr/bin/ld: ASSERT(({text}) == 0x{v:x}) -> {a}, != -> {b}")
            break
    ctx.count("oracle", "gnu-ld-confirmed", n_ld_done)
    wild = runner.WILD
    n_w = 0
    index_of = {}
    for k, c in enumerate(cases):
        index_of.setdefault(c[0], k)
    if os.path.exists(wild):
        for i, (text, t) in enumerate(sample[:n_wild]):
            v = gnu_value(t)
            a, out_a = link_assert(wild, ctx.scratch, obj, f"({text}) == 0x{v:x}", f"w{i}p")
            b, out_b = link_assert(wild, ctx.scratch, obj, f"({text}) != 0x{v:x}", f"w{i}n")
            n_w += 1
            if a == "error" or b == "error":
                ctx.count("wild-link", "rejected")
                continue
            if a != "pass" or b != "fired":
                ctx.cov["impl_oracle_failures"] += 1
                has_cmp = any(s in text for s in ("==", "!=", "<", ">"))
                k = index_of[text]
                rp, ip = ref_p[k], impl_p[k]
                key = (KEY_PREC if has_cmp else "precedence-link") if ip != rp else "link-assert"
                ctx.violation(key, f"real link: ASSERT(({text}) == 0x{v:x}) passes in GNU ld but wild says {a}; '!=' variant: {b}",
                              {"script": f'ASSERT(({text}) == 0x{v:x}, "x")', "wild": a, "wild_negated": b,
                               "how": "as t.s -o t.o; wild -o out t.o s.ld  (GNU ld: ld -o out t.o s.ld passes)"})
        # ASSERT fails exactly when the value is zero, on the real binary
        for j, (expr, want) in enumerate([("0", "fired"), ("1", "pass"), ("5 - 5", "fired"), ("1 << 64", "pass"), ("0xffffffffffffffff + 1", "fired"),
                                          ("!0", "pass"), ("!7", "fired"), ("MIN(0, 9)", "fired"), ("(0-8)/2 == 0-4", "pass"), ("(0-8)/2 != 0-4", "fired")]):
            got, out = link_assert(wild, ctx.scratch, obj, expr, f"z{j}")
            g2, _ = link_assert("/usr/bin/ld", ctx.scratch, obj, expr, f"zl{j}")
            n_w += 1
            if g2 != want:
                ctx.broken.append(f"GNU ld: ASSERT({expr}) -> {g2}, expected {want}")
            if got != want:
                ctx.cov["impl_oracle_failures"] += 1
                ctx.violation("assert-zero:" + expr, f"ASSERT({expr}) in a real wild link: {got}, GNU ld: {g2}", {"script": f'ASSERT({expr}, "x")', "wild_output": out[-300:]})
    ctx.count("oracle", "wild-links", n_w)
    ctx.sample({"oracle": "gnu-ld", "confirmed_scripts": n_ld_done, "wild_links": n_w, "first": sample[0][0] if sample else None})
