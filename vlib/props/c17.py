"""C17 - The exit status reflects whether the output was written.

Proof (lean/WildModel/Props/C17.lean over the fork/pipe/wait model lean/WildModel/Model/Proc.lean) tied to /repo by
fault enumeration on the real (hooked) binary: every fault point of libwild/src/verif_api/fault.rs x
{error, panic, abort, kill9, segv, oom} x {fork, --no-fork, fork() failing, pipe() failing} x {default threads,
--threads=1}; the observed (exit status seen by the invoker, state of the output file) is compared with the model's
prediction, and checked directly against the property (exit 0 with an incomplete output = VIOLATION).
"""
import os
import re
import resource
import signal
import stat
import subprocess
import time

from vlib import runner

NEEDS_WILD = True
LEAN_MODULES = ["WildModel.Props.C17"]
THEOREMS = [
    "Wild.Proc.exit_zero_implies_written",
    "Wild.Proc.failure_implies_nonzero",
    "Wild.Proc.nofork_exit_zero_iff_run_ok",
    "Wild.Proc.forkfailed_exit_zero_iff_run_ok",
    "Wild.Proc.forked_done_exit_zero",
    "Wild.Proc.exited_roundtrip",
    "Wild.Proc.signaled_roundtrip",
    "Wild.Proc.code_of_signal",
    "Wild.Proc.old_killed_witness",
    "Wild.Proc.old_violates",
    "Wild.Proc.old_partial",
]
LEVEL = "proof"
TRUSTED = [
    "hand-written model lean/WildModel/Model/Proc.lean of subprocess.rs / main.rs / report_error_and_exit, tied by fault enumeration "
    "on the hooked binary (correspondence proc-obs: predicted vs observed return code and output completeness)",
    "MODELLED, not verified: the kernel/process runtime - fork/pipe/waitpid semantics (EOF on the pipe iff the child is gone without having "
    "written; the byte arrives iff it was written), Linux wait-status encoding (validated on every run against real waitpid statuses and "
    "glibc's W* macros via Python's os module), Rust runtime exit codes (panic on the main thread = 101, process::exit(-1) = 255, "
    "abort/handle_alloc_error = SIGABRT)",
    "the hook libwild/src/verif_api/fault.rs places faults only at the 10 listed phase boundaries on the main thread; a fault between two "
    "boundaries is represented by the model's location classes (before the write finished / after it / after run returned / after the done "
    "byte), not exercised at every instruction",
    "'Linker::run returned Ok => output complete' is an assumption of the model (Loc.afterRun/afterInform count as written); the "
    "enumeration checks it on every run in which the byte was sent (output byte-identical to the reference, executable, runs)",
    "bv_decide (LRAT-checked SAT certificates) for the wait-status bit facts",
]
RULE = ("one case = one real link of a 2-section assembly hello-world with one injected fault (point, kind, setup, thread mode, prior "
        "state of the output path); all cases non-trivial; distinct by the case tuple. Plus wait-status encoding validation "
        "(proc-status / proc-end) against glibc macros and real waitpid statuses.")
ASSUMPTIONS = [
    "signals are 1..64 (Scenario.wf)",
    "faults strike the process that runs the link; the waiting parent itself is not killed (then its invoker sees a signal status, never 0)",
]

KINDS = ["error", "panic", "abort", "kill9", "segv", "oom"]
SLOTS = 4   # links run 4 at a time, each in its own directory; results are consumed in case order
FAULT_RS = os.path.join(runner.REPO, "libwild", "src", "verif_api", "fault.rs")

ASM = r"""
    .globl _start
    .text
_start:
    mov $1, %eax
    mov $1, %edi
    lea msg(%rip), %rsi
    mov $6, %edx
    syscall
    mov $60, %eax
    xor %edi, %edi
    syscall
    .section .rodata
msg: .ascii "hello\n"
"""

SHIM_C = r"""
#include <errno.h>
#include <stdlib.h>
#include <string.h>
#include <sys/types.h>
static int want(const char *w) { const char *e = getenv("WV_SHIM"); return e && strcmp(e, w) == 0; }
extern pid_t __libc_fork(void);
extern int __pipe(int fds[2]);
pid_t fork(void) { if (want("fork")) { errno = EAGAIN; return -1; } return __libc_fork(); }
int pipe(int fds[2]) { if (want("pipe")) { errno = EMFILE; return -1; } return __pipe(fds); }
"""



def private_wild(ctx):
    """A private copy of the hooked binary: a concurrent check of another property may rebuild (unlink + recreate) the shared one."""
    import shutil
    dst = os.path.join(ctx.scratch, "wild-under-test")
    with runner.Lock("cargo-wild"):
        if not os.path.exists(runner.WILD):
            raise runner.BuildError("hooked wild binary is missing (a concurrent build of /repo failed?)")
        try:
            os.link(runner.WILD, dst)
        except OSError:
            shutil.copy2(runner.WILD, dst)
    return dst

def fault_points():
    src = open(FAULT_RS).read()
    m = re.search(r"pub const POINTS: &\[&str\] = &\[(.*?)\];", src, re.S)
    return re.findall(r'"([^"]+)"', m.group(1))


def call_sites():
    """point -> number of call sites in /repo (a point without a call site would make the enumeration vacuous)."""
    n = {}
    base = os.path.join(runner.REPO, "libwild", "src")
    for root, _, files in os.walk(base):
        for fn in files:
            if fn.endswith(".rs") and fn != "fault.rs":
                for m in re.finditer(r'fault::fault_(?:point|hit|point_noerr)\("([^"]+)"\)', open(os.path.join(root, fn)).read()):
                    n[m.group(1)] = n.get(m.group(1), 0) + 1
    return n


def loc_of(point, setup):
    """Model location class of a fault point; None = the point is not on this setup's path (no fault happens)."""
    if point in ("before-inform-parent", "after-inform-parent"):
        if setup not in ("fork", "fork-sigchld-ign"):
            return None
        return "after-run" if point == "before-inform-parent" else "after-inform"
    if point == "after-write":
        return "written"
    return "unwritten"


class Env:
    def __init__(self, ctx):
        self.ctx = ctx
        d = ctx.scratch
        self.dir = d
        open(os.path.join(d, "hello.s"), "w").write(ASM)
        rc, out = runner.sh(["as", "hello.s", "-o", "hello.o"], cwd=d)
        if rc != 0:
            raise runner.BuildError("as failed: " + out)
        open(os.path.join(d, "shim.c"), "w").write(SHIM_C)
        rc, out = runner.sh(["gcc", "-shared", "-fPIC", "-O1", "-o", "shim.so", "shim.c"], cwd=d)
        self.shim = os.path.join(d, "shim.so") if rc == 0 else None
        self.base_env = {k: v for k, v in os.environ.items() if not k.startswith("WILD_") and k not in ("MAKEFLAGS", "LD_PRELOAD")}
        self.base_env["RUST_BACKTRACE"] = "0"
        self.obj = os.path.join(d, "hello.o")
        self.outs = []
        for k in range(SLOTS):
            os.makedirs(os.path.join(d, f"slot{k}"), exist_ok=True)
            self.outs.append(os.path.join(d, f"slot{k}", "out"))
        self.out = self.outs[0]
        self.wild = private_wild(ctx)
        # no core files from the abort/segv/oom runs (inherited by every child; avoids preexec_fn)
        hard = resource.getrlimit(resource.RLIMIT_CORE)[1]
        resource.setrlimit(resource.RLIMIT_CORE, (0, hard))
        # reference outputs (no fault), one per thread mode; must agree
        self.ref = None
        for setup in ("fork", "nofork"):
            for threads in ("default", "1"):
                rc, state, _ = self.link(setup, threads, None, None, "absent", ref=True)
                data = open(self.out, "rb").read() if os.path.exists(self.out) else None
                if rc != 0 or data is None:
                    raise runner.BuildError(f"reference link failed (setup={setup}, threads={threads}): rc={rc}")
                if self.ref is None:
                    self.ref = data
                elif self.ref != data:
                    raise runner.BuildError("reference links differ between fork/no-fork/thread modes")
        r = subprocess.run([self.out], stdout=subprocess.PIPE)
        if r.returncode != 0 or r.stdout != b"hello\n":
            raise runner.BuildError("reference output does not run")

    def link(self, setup, threads, point, kind, prior, ref=False, slot=0):
        """Runs one link (in the private directory of `slot`). Returns (python returncode, output state, stderr tail)."""
        out = self.outs[slot]
        for p in (out, out + ".delete"):
            try:
                os.unlink(p)
            except FileNotFoundError:
                pass
        if prior == "stale":
            with open(out, "wb") as f:
                f.write(b"#!/bin/sh\necho stale\n")
            os.chmod(out, 0o755)
        env = dict(self.base_env)
        args = [self.wild, self.obj, "-o", out]
        if setup == "nofork":
            args.append("--no-fork")
        if threads != "default":
            args.append(f"--threads={threads}")
        if setup in ("forkfail", "pipefail"):
            env["LD_PRELOAD"] = self.shim
            env["WV_SHIM"] = "fork" if setup == "forkfail" else "pipe"
        if point is not None:
            env["WILD_VERIF_FAULT"] = f"{point}:{kind}"
        if setup == "fork-sigchld-ign":
            # the invoker ignores SIGCHLD (inherited across exec): the kernel reaps the worker itself and waitpid() fails with ECHILD
            args = ["/bin/bash", "-c", "trap '' CHLD; exec \"$@\"", "sh"] + args
        p = subprocess.run(args, cwd=os.path.dirname(out), env=env, stdout=subprocess.PIPE, stderr=subprocess.PIPE, timeout=120)
        # The state of the output is read immediately: the property is about the moment the invoker sees the exit status.
        state = "complete" if ref else self.state(out)
        return p.returncode, state, p.stderr[-300:].decode("utf-8", "replace")

    def state(self, out):
        try:
            st = os.stat(out)
            data = open(out, "rb").read()
        except FileNotFoundError:
            return "absent"
        if data != self.ref:
            if data.startswith(b"#!/bin/sh\necho stale"):
                return "stale"
            return "partial"
        if not st.st_mode & stat.S_IXUSR:
            return "not-executable"
        try:
            r = subprocess.run([out], stdout=subprocess.PIPE, timeout=60)
        except OSError as e:
            return "not-runnable"
        return "complete" if (r.returncode == 0 and r.stdout == b"hello\n") else "wrong-behaviour"


def validate_wait_status(ctx):
    """The spec side of the model (kernel encoding + libc macros) against the real artefacts."""
    # (1) macros vs glibc through Python's os.W*
    sts = list(range(0, 0x10000 if not ctx.quick else 0x2000, 1)) + [0xffffffff, 0x7fffffff, 0x80000000, 0x1ff00, 0xff7f, 0x7f, 0x80, 0xff]
    for _ in range(2000):
        sts.append(ctx.rng.next() & 0xffffffff)
    lines = [f"proc-status 0x{s:x}" for s in sts]

    def glibc(s):
        si = s - (1 << 32) if s >= 1 << 31 else s   # c_int
        ex, sg, stp = os.WIFEXITED(si), os.WIFSIGNALED(si), os.WIFSTOPPED(si)
        es, ts = os.WEXITSTATUS(si), os.WTERMSIG(si)
        core = os.WCOREDUMP(si)
        code = es if ex else (128 + ts if sg else 1)
        return (f"exited={int(ex)} signaled={int(sg)} stopped={int(stp)} exitstatus={es} termsig={ts} core={int(core)} "
                f"code={code} oldcode={es}")

    impl = [glibc(s) for s in sts]
    ctx.differential("wait-status-macros-vs-glibc", lines, impl_out=impl)
    # (2) kernel encoding vs real waitpid statuses
    lines, impl = [], []
    cases = [("exited", k) for k in (0, 1, 2, 101, 127, 128, 255, 256, 257, 0xffffffff)] + \
            [("signaled", s) for s in (1, 2, 6, 9, 11, 13, 15, 31, 34, 64)]
    for kind, n in cases:
        pid = os.fork()
        if pid == 0:
            try:
                resource.setrlimit(resource.RLIMIT_CORE, (0, 0))
                if kind == "exited":
                    os._exit(n & 0xffffffff if n < 1 << 31 else -1)
                signal.signal(n, signal.SIG_DFL) if n not in (9, 19) else None
                os.kill(os.getpid(), n)
                time.sleep(5)
            finally:
                os._exit(77)
        _, status = os.waitpid(pid, 0)
        if kind == "exited":
            lines.append(f"proc-end exited 0x{n:x}")
        else:
            lines.append(f"proc-end signaled {n} {1 if status & 0x80 else 0}")
        impl.append(f"0x{status:x}")
    ctx.differential("wait-status-encoding-vs-kernel", lines, impl_out=impl)


def run(ctx):
    points = fault_points()
    sites = call_sites()
    for p in points:
        if sites.get(p, 0) == 0:
            ctx.broken.append(f"fault point {p} is documented in fault.rs but has no call site in /repo")
    validate_wait_status(ctx)
    env = Env(ctx)
    setups = ["fork", "nofork"]
    cases = []
    for setup in setups:
        for threads in ("default", "1"):
            for point in points:
                for kind in KINDS:
                    cases.append((setup, threads, point, kind, "absent"))
    if env.shim:
        for point in points:
            for kind in (KINDS if not ctx.quick else ["error", "kill9", "panic"]):
                cases.append(("forkfail", "default", point, kind, "absent"))
        cases.append(("pipefail", "default", None, None, "absent"))
        cases.append(("forkfail", "default", None, None, "absent"))
    else:
        ctx.assumptions.append("LD_PRELOAD shim could not be built: fork()/pipe() failure setups not exercised")
    # the invoking process ignores SIGCHLD, so the parent's waitpid() on the worker fails: no model prediction for the exact status,
    # only the property itself is checked (exit 0 only with a complete output; a failure before "done" gives non-zero)
    for point in (points if not ctx.quick else ["after-args", "after-layout", "mid-write", "before-inform-parent", "after-inform-parent"]):
        for kind in (KINDS if not ctx.quick else ["error", "kill9", "abort"]):
            cases.append(("fork-sigchld-ign", "default", point, kind, "absent"))
    cases.append(("fork-sigchld-ign", "default", None, None, "absent"))
    # a stale file at the output path: exit 0 must never leave it in place
    stale_points = points if not ctx.quick else ["after-layout", "after-output-created", "before-flush", "after-write", "after-inform-parent"]
    for setup in setups:
        for point in stale_points:
            for kind in ("error", "kill9"):
                cases.append((setup, "default", point, kind, "stale"))
    for setup in setups:
        cases.append((setup, "default", None, None, "absent"))
        cases.append((setup, "1", None, None, "stale"))
    reps = 1 if ctx.quick else 5
    cases = cases * reps

    lines, impl, meta = [], [], []
    bad = {}
    import concurrent.futures
    import queue
    slots = queue.Queue()
    for k in range(SLOTS):
        slots.put(k)

    def one(case):
        k = slots.get()
        try:
            return env.link(*case, slot=k)
        finally:
            slots.put(k)

    with concurrent.futures.ThreadPoolExecutor(max_workers=SLOTS) as ex:
        results = list(ex.map(one, cases))
    for (setup, threads, point, kind, prior), (rc, state, err) in zip(cases, results):
        loc = loc_of(point, setup) if point else None
        mk = kind if (point and loc) else "none"
        line = f"proc-obs {setup} {mk} {loc or '-'}"
        complete = state == "complete"
        # after a reported failure C17 does not say what the file looks like (C18 does): compared only where C17 constrains it
        na = (mk != "none" and loc != "after-inform") or setup == "pipefail"
        if setup != "fork-sigchld-ign":
            lines.append(line)
            impl.append(f"rc={rc} complete={'na' if na else int(complete)}")
            meta.append((setup, threads, point, kind, prior, rc, state))
        ctx.count("setup", setup)
        ctx.count("kind", kind or "none")
        ctx.count("point", point or "none")
        ctx.count("observed", f"rc={rc},{state}")
        # the property itself, independent of the model
        if rc == 0 and not complete:
            key = f"exit0-incomplete:{setup}:{kind}"
            bad.setdefault(key, []).append({"point": point, "kind": kind, "setup": setup, "threads": threads, "prior": prior, "exit": rc,
                                            "output_state": state})
        # statement's second half: a failure before "done" gives a non-zero status
        if mk != "none" and loc != "after-inform" and rc == 0:
            key = f"exit0-after-failure:{setup}:{kind}"
            bad.setdefault(key, []).append({"point": point, "kind": kind, "setup": setup, "threads": threads, "prior": prior, "exit": rc,
                                            "output_state": state})
    for key, items in bad.items():
        ctx.cov["impl_oracle_failures"] += len(items)
        f = items[0]
        flags = (" --no-fork" if f["setup"] == "nofork" else "") + (f" --threads={f['threads']}" if f["threads"] != "default" else "")
        ctx.violation(key, f"wild exits 0 although the link failed / the output is {f['output_state']}: fault {f['kind']} at {f['point']} "
                      f"({f['setup']}); {len(items)} case(s)",
                      {"cases": items, "how": f"as hello.s -o hello.o; WILD_VERIF_FAULT={f['point']}:{f['kind']} /verif/.target/wild/debug/wild "
                       f"hello.o -o out{flags}; echo $?  (hooked build: cargo build -p wild-linker --features verif)", "asm": ASM})
    dis, _, model = ctx.differential("proc-obs", lines, impl_out=impl)
    # explain disagreements that are not property violations (model or hook drift)
    for (l, a, m_) in dis[:5]:
        i = lines.index(l)
        ctx.sample({"disagreement": l, "observed": a, "model": m_, "case": meta[i]}, cap=16)
    k = len(lines) // 3
    ctx.sample({"case": meta[k], "request": lines[k], "observed": impl[k], "model": model[k]}, cap=16)
