"""C18 - A failed link leaves no output file produced by that link."""
import os
import time

from vlib.props import c18c21_common as C

NEEDS_WILD = True
LEAN_MODULES = ["WildModel.Props.C18"]
THEOREMS = [
    "Wild.C18.c18_full",
    "Wild.C18.c18_partial",
    "Wild.C18.c18_v0_witness",
    "Wild.C18.c18_v0_assert_witness",
    "Wild.C18.c18_rodir_witness",
]
LEVEL = "proof"
TRUSTED = [
    "hand-written models lean/WildModel/Model/Fs.lean (Linux open/rename/link/unlink/ftruncate semantics, ETXTBSY, permissions) and "
    "lean/WildModel/Model/OutputFile.lean (libwild/src/file_writer.rs + call order of lib.rs), tied on every run by differential "
    "correspondence: real links of the hooked wild under strace in sandbox directories vs. the model's predicted final state AND predicted "
    "system-call sequence on the output path (`of-run`)",
    "fault points of /repo/libwild/src/verif_api/fault.rs mark the phase boundaries the model calls FailPoint (mapping in c18c21_common.FAULT_TO_MODEL)",
    "kernel facts assumed: rename/link/unlink/open(O_CREAT|O_TRUNC)/ftruncate as in Model/Fs; inode numbers of pinned files are not recycled",
    "premise of c18_full: the output's directory permits unlink (otherwise an in-place update cannot be undone: c18_rodir_witness, observed and counted as boundary)",
]
RULE = ("every failure (5 natural: undefined symbol, linker-script ASSERT, relocation overflow at write time, unwritable dependency-file path, missing input; "
        "8 fault points x {error, panic}; inputs-changed after a successful write via the pause hook) x prior output state {absent, file, read-only file (non-root), "
        "executable being executed, directory without write permission} with write-mode flags, thread count, mmap mode and temp-name seeding cycling; "
        "non-trivial = the link got at least as far as Output::new; distinct by scenario id + observation")
ASSUMPTIONS = [
    "process death by signal / abort (kill9, segv, abort, oom) cannot run cleanup code: those runs are reported under the known finding c18:crash-leaves-partial-output, not as fresh violations",
]
EXPLANATION = ("Upstream left a created / truncated / partly written output behind on every failure after set_size (c18_v0_witness, c18_v0_assert_witness). "
               "Fix c18-unlink-on-error (applied in /repo): Output removes what it opened unless commit() was reached; link_for_arch removes the output when "
               "verify_inputs_unchanged or the dependency file fails after a successful link. c18_full is proved for that code for all prior states, modes, "
               "creators, failure points and schedules.")


def _norm_ro(line):
    return line.replace("link:ok", "link:*").replace("link:err", "link:*")


def run(ctx):
    inputs = C.build_inputs(ctx)
    priors = ["absent", "file", "ro", "busy"]
    grid = C.scenario_grid(ctx, priors, include_success=True)
    # boundary: directory without write permission
    grid += [C.Scenario("rodir-file", False, "default", 0, 4, 1, ("natural", "ovf")),
             C.Scenario("rodir-file", False, "default", 0, 1, 1, ("natural", "ovf")),
             C.Scenario("rodir-absent", False, "default", 0, 4, 1, ("natural", "ovf")),
             C.Scenario("rodir-file", False, "uip", 1, 4, 0, ("fault", "before-flush", "error"))]
    crash = [C.Scenario("file", False, fl, sh, th, 1, ("fault", p, k))
             for (p, k, fl, sh, th) in [("after-layout", "kill9", "default", 0, 4), ("mid-write", "kill9", "default", 1, 4),
                                          ("mid-write", "abort", "default", 0, 1), ("before-flush", "segv", "nouip", 0, 4),
                                          ("after-output-created", "oom", "default", 0, 4), ("after-write", "kill9", "default", 0, 4),
                                          ("after-symbol-resolution", "kill9", "default", 0, 4)]]
    pairs = []
    t0 = time.time()
    for n, sc in enumerate(grid):
        o = C.run_scenario(ctx, sc, inputs, tag="c18")
        ctx.count("failure", ":".join(sc.failure[:2]) if sc.failure[0] != "fault" else f"{sc.failure[1]}:{sc.failure[2]}")
        ctx.count("prior", sc.prior)
        ctx.count("mode", f"{sc.flag}/{'so' if sc.shared else 'exe'}/t{sc.threads}/{'mmap' if sc.mmap else 'nommap'}")
        ctx.count("observed", f"rc{'0' if o['rc'] == 0 else 'N'}:{o['out']}")
        obs = C.obs_line(o)
        norm = C.norm_model_line
        if sc.prior == "ro":
            obs = _norm_ro(obs)
            norm = (lambda m: _norm_ro(C.norm_model_line(m)))
        pairs.append((sc.model_line(), obs, norm))
        _oracle(ctx, sc, o)
    C.correspond(ctx, "output-file-state-machine", pairs)
    # inputs changed after a successful write (verify_inputs_unchanged fails): pause hook
    for threads in (4, 1):
        _verify_failure(ctx, inputs, threads)
    # process death: no cleanup possible in-process
    for sc in crash:
        o = C.run_scenario(ctx, sc, inputs, tag="c18k")
        ctx.note_case(("crash", sc.ident(), o["out"]), True)
        ctx.count("failure", f"{sc.failure[1]}:{sc.failure[2]}")
        if o["rc"] != 0 and o["out"] in ("modified", "new"):
            ctx.cov["impl_oracle_failures"] += 1
            ctx.violation("c18:crash-leaves-partial-output",
                          f"{sc.ident()}: wild died ({sc.failure[2]}) rc={o['rc']} and left a {o['out']} file at the output path",
                          _replay(sc, o))
    ctx.cov["input_distribution"]["wall_links_s"] = round(time.time() - t0, 1)


def _replay(sc, o):
    return {"scenario": sc.ident(), "cmd": [C.wild_display()] + o["args"], "env": o["env"], "run_as_uid": o["uid"],
            "prior_output": sc.prior, "rc": o["rc"], "output_after": o["out"],
            "before": {k: list(v) for k, v in o["before"].items() if k == sc.out_name},
            "after": {k: list(v) for k, v in o["after"].items() if k == sc.out_name}, "stderr": o["stderr"][-300:],
            "how": "create the sandbox as described (prior output 'PRIOR\\n'), run cmd with env in it, then ls -li the output path"}


def _oracle(ctx, sc, o):
    """The property itself on the observation, independent of the model."""
    if o["rc"] == 0:
        if sc.failure[0] != "none" and sc.model_fail() not in ("none",):
            # an injected/natural failure that did not fail the link is C17's business, but say so
            ctx.count("observed", "failure-did-not-fail")
        return
    if o["out"] in ("modified", "new"):
        if sc.prior.startswith("rodir"):
            ctx.count("boundary", "rodir-inplace-not-undoable")
            return
        ctx.cov["impl_oracle_failures"] += 1
        fid = ":".join(sc.failure)
        ctx.violation(f"c18:left-output:{fid}:{sc.prior}:{sc.flag}:{'so' if sc.shared else 'exe'}:t{sc.threads}",
                      f"{sc.ident()}: exit status {o['rc']} but the output path holds a {o['out']} file "
                      f"({'the prior inode was changed in place' if o['out'] == 'modified' else 'created by this link'})",
                      _replay(sc, o))


def _verify_failure(ctx, inputs, threads):
    """Successful write, then verify_inputs_unchanged fails (an input is touched while the link is parked
    at `after-write`): exit != 0 and the complete output must be gone (model fail point `verify`)."""
    import shutil
    import subprocess
    d = C.mk_sandbox(ctx, "c18v")
    obj = os.path.join(d, "in.o")
    shutil.copy(os.path.join(inputs, "ok.o"), obj)
    time.sleep(0.03)
    gate = os.path.join(d, "gate")
    with open(os.path.join(d, "x"), "w") as f:
        f.write("PRIOR\n")
    before = C.snapshot(d)
    pins = C.Pins(d)
    p = C.spawn_wild([obj, "-o", "x", f"--threads={threads}"], d, env={"WILD_VERIF_PAUSE": f"after-write:{gate}"})
    ok = False
    for _ in range(3000):
        if os.path.exists(gate + ".reached"):
            ok = True
            break
        if p.poll() is not None:
            break
        time.sleep(0.002)
    complete = C.classify(before, C.snapshot(d), "x")
    os.utime(obj, ns=(1, 1))
    open(gate, "w").close()
    try:
        out, err = p.communicate(timeout=60)
    except subprocess.TimeoutExpired:
        p.kill()
        out, err = p.communicate()
    after = C.snapshot(d)
    pins.close()
    state = C.classify(before, after, "x")
    sc = C.Scenario("file", False, "default", 0, threads, 1, ("verify",))
    obs = f"ok={1 if p.returncode == 0 else 0} out={state} tmp=absent sib=same"
    C.correspond(ctx, "output-file-state-machine", [(sc.model_line(), obs, lambda m: C.norm_model_line(m, with_trace=False))])
    ctx.count("failure", "verify")
    if not ok:
        ctx.broken.append("pause hook after-write was never reached")
    if p.returncode != 0 and state in ("modified", "new"):
        ctx.cov["impl_oracle_failures"] += 1
        ctx.violation(f"c18:left-output:verify:t{threads}",
                      f"inputs changed after the write (threads={threads}): exit {p.returncode}, but the output path holds a {state} file (it was '{complete}' while parked)",
                      {"how": "WILD_VERIF_PAUSE=after-write:<gate> wild in.o -o x; when <gate>.reached exists: touch -d @1 in.o; touch <gate>", "stderr": err.decode(errors='replace')[-300:]})
    if p.returncode == 0:
        ctx.broken.append("touching an input while parked at after-write did not fail the link (C20 mechanism)")
