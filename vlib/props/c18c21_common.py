"""Shared machinery of the file-system checks C18, C19, C20, C21: test inputs, sandbox directories,
directory snapshots, strace parsing, running the hooked wild (optionally as an unprivileged user)."""
import hashlib
import os
import re
import shutil
import signal
import stat
import subprocess
import time

from vlib import runner



def wild():
    """The wild binary to run, resolved at call time: the runner rebinds `runner.WILD` to a private copy
    after this module is imported. C18C21_WILD: run the scenarios against another build of wild (used for
    mutation sanity tests only)."""
    p = os.environ.get("C18C21_WILD") or runner.WILD
    # scenarios that run as `nobody` must be able to execute it
    try:
        d = os.path.dirname(p)
        if not (os.stat(d).st_mode & 0o005 == 0o005):
            os.chmod(d, os.stat(d).st_mode | 0o055)
        if not (os.stat(p).st_mode & 0o005 == 0o005):
            os.chmod(p, os.stat(p).st_mode | 0o055)
    except OSError:
        pass
    return p


def wild_display():
    """Stable path for replay instructions (the private copy disappears with the scratch directory)."""
    return os.environ.get("C18C21_WILD") or os.path.join(runner.TARGET, "wild", "debug", "wild")
NOBODY = 65534

ASM = {
    "ok": ".globl _start\n.text\n_start:\n  mov $60,%eax\n  xor %edi,%edi\n  syscall\n.data\nmarker:\n  .byte 0x11,0x11,0x11,0x11,0x11,0x11,0x11,0x11\n",
    "undef": ".globl _start\n.text\n_start:\n  call missing_fn\n  mov $60,%eax\n  syscall\n",
    "ovf": ".globl _start\n.text\n_start:\n  movl $big_sym, %eax\n  mov $60,%eax\n  syscall\n",
    # a program that sleeps forever (used as the running executable)
    "sleeper": ".globl _start\n.text\n_start:\n1:\n  mov $34,%eax\n  syscall\n  jmp 1b\n.data\nblob:\n  .fill 8192,1,0x5a\n",
    "sleeper2": ".globl _start\n.text\n_start:\n1:\n  mov $34,%eax\n  syscall\n  jmp 1b\n.data\nblob:\n  .fill 8192,1,0xa5\n",
    # C20 inputs
    "main": ".globl _start\n.text\n_start:\n  call foo\n  call bar\n  mov $60,%eax\n  xor %edi,%edi\n  syscall\n.data\nmarker:\n  .byte 0x11,0x11,0x11,0x11,0x11,0x11,0x11,0x11\n",
    "foo": ".globl foo\n.text\nfoo:\n  ret\n.data\nfoo_marker:\n  .byte 0x11,0x11,0x11,0x11,0x11,0x11,0x11,0x11\n",
    "bar": ".globl bar\n.text\nbar:\n  ret\n.data\nbar_marker:\n  .byte 0x11,0x11,0x11,0x11,0x11,0x11,0x11,0x11\n",
}
ASSERT_LD = 'ASSERT(0, "boom")\n'


def sha(path):
    h = hashlib.sha256()
    with open(path, "rb") as f:
        for b in iter(lambda: f.read(1 << 16), b""):
            h.update(b)
    return h.hexdigest()[:16]


def build_inputs(ctx):
    """Assemble the fixed test objects once per check run into <scratch>/inputs (world-readable)."""
    d = os.path.join(ctx.scratch, "inputs")
    if os.path.isdir(d):
        return d
    os.chmod(ctx.scratch, 0o755)
    os.makedirs(d)
    for name, src in ASM.items():
        s = os.path.join(d, name + ".s")
        open(s, "w").write(src)
        rc, out = runner.sh(["as", s, "-o", os.path.join(d, name + ".o")])
        if rc != 0:
            raise runner.BuildError("as failed: " + out)
    open(os.path.join(d, "assert.ld"), "w").write(ASSERT_LD)
    # an executable that sleeps, linked by GNU ld (independent of wild) for "busy" prior states
    rc, out = runner.sh(["ld", "-o", os.path.join(d, "sleeper.gnu"), os.path.join(d, "sleeper.o")])
    if rc != 0:
        raise runner.BuildError("ld failed: " + out)
    for f in os.listdir(d):
        os.chmod(os.path.join(d, f), 0o755 if f.endswith(".gnu") else 0o644)
    os.chmod(d, 0o755)
    return d


def snapshot(d):
    """name -> (ino, size, sha, mode, mtime_ns) for every entry (recursively, relative names)."""
    res = {}
    for root, dirs, files in os.walk(d):
        for fn in files + dirs:
            p = os.path.join(root, fn)
            rel = os.path.relpath(p, d)
            st = os.lstat(p)
            if stat.S_ISREG(st.st_mode):
                try:
                    h = sha(p)
                except OSError:
                    h = "unreadable"
                res[rel] = (st.st_ino, st.st_size, h, stat.S_IMODE(st.st_mode), st.st_mtime_ns)
            else:
                res[rel] = (st.st_ino, 0, "dir" if stat.S_ISDIR(st.st_mode) else "special", stat.S_IMODE(st.st_mode), 0)
    return res


class Pins:
    """Keeps descriptors open on every file of a directory so that inode numbers cannot be recycled
    while a scenario runs (a deleted-and-recreated file must not look like the old inode)."""

    def __init__(self, d):
        self.fds = []
        for root, _, files in os.walk(d):
            for fn in files:
                try:
                    self.fds.append(os.open(os.path.join(root, fn), os.O_RDONLY))
                except OSError:
                    pass

    def close(self):
        for fd in self.fds:
            os.close(fd)
        self.fds = []


def diff_snap(a, b):
    """Returns (created, deleted, changed) name lists; `changed` = same name, anything differs."""
    created = sorted(n for n in b if n not in a)
    deleted = sorted(n for n in a if n not in b)
    changed = sorted(n for n in a if n in b and a[n] != b[n])
    return created, deleted, changed


def classify(before, after, name):
    """The model's vocabulary for one path: absent | same | modified | new."""
    if name not in after:
        return "absent"
    if name not in before:
        return "new"
    if after[name] == before[name]:
        return "same"
    if after[name][0] == before[name][0]:
        return "modified"
    return "new"


_LINE = re.compile(r"^(\d+)\s+(.*)$")


def parse_strace(path, out_name, tmp_re):
    """Canonical operation trace on the output path and the temporary sibling, in the vocabulary of
    Model/OutputFile.Op.show. Returns (ops, paths_touched) where paths_touched is the set of path
    strings that appear in a mutating syscall (creat/rename/unlink/link/mkdir/chmod/truncate)."""
    pend = {}
    lines = []
    for raw in open(path, errors="replace"):
        m = _LINE.match(raw.rstrip("\n"))
        if not m:
            continue
        pid, rest = m.group(1), m.group(2)
        if rest.endswith("<unfinished ...>"):
            pend[pid] = rest[: -len("<unfinished ...>")].rstrip()
            continue
        r = re.match(r"<\.\.\. (\w+) resumed>(.*)$", rest)
        if r:
            head = pend.pop(pid, r.group(1) + "(")
            rest = head + r.group(2).lstrip()
        lines.append(rest)
    ops = []
    touched = set()
    out_fds = set()
    link_dests = []

    def is_out(p):
        return p == out_name or os.path.basename(p) == os.path.basename(out_name) and os.path.normpath(p).endswith(os.path.normpath(out_name))

    def is_tmp(p):
        return bool(tmp_re.search(os.path.basename(p)))

    for l in lines:
        m = re.match(r"(\w+)\((.*)\)\s+=\s+(-?\d+|\?)(?:\s+(\w+))?", l)
        if not m:
            continue
        sc, args, ret, err = m.group(1), m.group(2), m.group(3), m.group(4)
        ok = ret != "?" and int(ret) >= 0
        strs = re.findall(r'"((?:[^"\\]|\\.)*)"', args)
        if sc in ("openat", "open", "creat"):
            if not strs:
                continue
            p = strs[0]
            creat = "O_CREAT" in args or sc == "creat"
            wr = "O_WRONLY" in args or "O_RDWR" in args
            if creat or wr:
                touched.add(p)
            if is_out(p) and creat:
                ops.append("open" + ("+trunc" if "O_TRUNC" in args else "") + ":" + ("ok" if ok else (err or "ERR")))
                if ok:
                    out_fds.add(ret)
        elif sc == "close":
            fd = args.strip()
            out_fds.discard(fd)
        elif sc in ("rename", "renameat", "renameat2"):
            touched.update(strs[:2])
            if len(strs) >= 2 and is_out(strs[0]):
                ops.append("rename:" + ("ok" if ok else "err"))
        elif sc in ("link", "linkat"):
            touched.update(strs[1:2])   # the source of a hard link is not modified (only its link count)
            if len(strs) >= 2 and is_out(strs[0]):
                ops.append("link:" + ("ok" if ok else "err"))
                link_dests.append(strs[1])
        elif sc in ("unlink", "unlinkat", "rmdir"):
            if strs:
                touched.add(strs[0])
                if is_out(strs[0]):
                    ops.append("unlink-out:" + ("ok" if ok else "err"))
                elif is_tmp(strs[0]):
                    ops.append("unlink-tmp:" + ("ok" if ok else "err"))
        elif sc in ("mkdir", "mkdirat", "chmod", "fchmodat", "truncate", "symlink", "symlinkat", "utimensat", "chown", "fchownat"):
            if strs:
                touched.add(strs[0])
        elif sc == "ftruncate":
            fd = args.split(",")[0].strip()
            if fd in out_fds:
                ops.append("ftruncate")
        elif sc == "fchmod":
            fd = args.split(",")[0].strip()
            if fd in out_fds:
                ops.append("chmod")
        elif sc == "write":
            fd = args.split(",")[0].strip()
            if fd in out_fds and (not ops or ops[-1] != "write"):
                ops.append("write")
    parse_strace.last_link_dests = link_dests
    return ops, touched


def demote(uid):
    def f():
        os.setgroups([])
        os.setgid(uid)
        os.setuid(uid)
    return f


def run_wild(args, cwd, env=None, uid=None, strace_out=None, timeout=60, trace_write=True):
    """Runs the hooked wild; returns (rc, stderr_text). rc < 0: killed by signal -rc."""
    e = {"PATH": os.environ.get("PATH", "/usr/bin:/bin"), "HOME": "/tmp"}
    if env:
        e.update(env)
    cmd = [wild()] + list(args)
    if strace_out:
        tr = "trace=%file,ftruncate,fchmod,close" + (",write" if trace_write else "")
        cmd = ["strace", "-f", "-s", "256", "-e", tr, "-e", "signal=none", "-o", strace_out] + cmd
    p = subprocess.run(cmd, cwd=cwd, env=e, stdout=subprocess.PIPE, stderr=subprocess.PIPE, timeout=timeout,
                       preexec_fn=demote(uid) if uid is not None else None)
    return p.returncode, (p.stdout + p.stderr).decode(errors="replace")


def spawn_wild(args, cwd, env=None):
    e = {"PATH": os.environ.get("PATH", "/usr/bin:/bin"), "HOME": "/tmp"}
    if env:
        e.update(env)
    return subprocess.Popen([wild()] + list(args), cwd=cwd, env=e, stdout=subprocess.PIPE, stderr=subprocess.PIPE)


def mk_sandbox(ctx, tag):
    d = os.path.join(ctx.scratch, "sb-" + tag)
    if os.path.isdir(d):
        os.chmod(d, 0o777)
        shutil.rmtree(d)
    os.makedirs(d)
    os.chmod(d, 0o777)
    return d


def start_sleeper(path):
    """execve `path` (a program that pauses forever); returns the Popen object once it is running."""
    p = subprocess.Popen([path], stdout=subprocess.DEVNULL, stderr=subprocess.DEVNULL)
    for _ in range(200):
        try:
            if os.readlink(f"/proc/{p.pid}/exe"):
                break
        except OSError:
            pass
        time.sleep(0.005)
    time.sleep(0.01)
    return p


def stop(p):
    try:
        p.send_signal(signal.SIGKILL)
    except OSError:
        pass
    try:
        p.wait(timeout=5)
    except Exception:
        pass


FAULT_TO_MODEL = {
    "after-args": "pre-output",
    "after-inputs-loaded": "pre-output",
    "after-symbol-resolution": "pre-set-size",
    "after-layout": "post-set-size",
    "after-output-created": "post-create",
    "mid-write": "write-fn",
    "before-flush": "flush",
    "after-write": "post-write",
}
CRASH_KINDS = ("abort", "kill9", "segv", "oom")


# ---------------------------------------------------------------------------------------------
# One link scenario in a sandbox directory (C18 / C19)

OUT_NAMES = {0: "x", 1: "x.so"}   # executable / shared object output names
TMP_RE = re.compile(r"^\.(.+)\.wild-old\.\d+$")


class Scenario:
    def __init__(self, prior, tmpseed, flag, shared, threads, mmap, failure, out_name=None):
        self.prior = prior          # absent | file | ro | busy | rodir-file | rodir-absent
        self.tmpseed = tmpseed      # seed files named like the temporary for the next pids
        self.flag = flag            # default | uip | nouip
        self.shared = shared        # 0 | 1
        self.threads = threads      # 1 | N
        self.mmap = mmap            # 0 | 1
        self.failure = failure      # ("none",) | ("natural", id) | ("fault", point, kind) | ("verify",)
        self.out_name = out_name or OUT_NAMES[shared]

    def ident(self):
        return f"{self.prior}/{'tmpseed' if self.tmpseed else 'notmp'}/{self.flag}/{'so' if self.shared else 'exe'}/t{self.threads}/{'mmap' if self.mmap else 'nommap'}/{':'.join(self.failure)}"

    def model_fail(self):
        f = self.failure
        if f[0] == "none":
            return "none"
        if f[0] == "verify":
            return "verify"
        if f[0] == "fault":
            return FAULT_TO_MODEL[f[1]]
        return {"undef": "pre-set-size", "assert": "post-set-size", "ovf": "write-fn", "depfile": "depfile", "missing-input": "pre-output"}[f[1]]

    def model_line(self, ver="v1"):
        return (f"of-run {ver} {self.prior} {'present' if self.tmpseed else 'absent'} {self.flag} {self.shared} "
                f"{1 if self.threads == 1 else 0} {self.mmap} {self.model_fail()} 110")


def seed_siblings(d, out_name, rng=None):
    """Adversarial neighbours of the output: same stem with other extensions, the historical temporary
    name `stem.delete`, dotfiles, and files whose names merely resemble the new temporary's."""
    stem = out_name.split(".")[0]
    names = [stem + ".delete", stem + ".o", stem + ".d", "." + out_name + ".swp", "." + out_name, out_name + ".delete",
             "." + out_name + ".wild-old", "." + out_name + ".wild-old.x", "other.txt"]
    if stem != out_name:
        names.append(stem)
    else:
        names.append(stem + ".so")
    for i, n in enumerate(names):
        with open(os.path.join(d, n), "w") as f:
            f.write(f"sibling {i} {n}\n")
    return names


def seed_tmp_names(d, out_name, count=400):
    """Files literally named like the temporary for the pids the link is going to get."""
    probe = subprocess.Popen(["true"])
    probe.wait()
    base = probe.pid
    names = []
    for k in range(1, count + 1):
        pid = base + k
        n = f".{out_name}.wild-old.{pid}"
        with open(os.path.join(d, n), "w") as f:
            f.write("T")
        names.append(n)
    return names


def run_scenario(ctx, sc, inputs, tag="s", strace=True, extra_args=(), extra_env=None):
    """Sets up the sandbox, runs the link, returns an observation dict."""
    d = mk_sandbox(ctx, tag)
    out = sc.out_name
    outp = os.path.join(d, out)
    sleeper = None
    sibs = seed_siblings(d, out)
    tmps = []
    if sc.prior in ("file", "ro", "rodir-file"):
        with open(outp, "w") as f:
            f.write("PRIOR\n")
        os.chmod(outp, 0o444 if sc.prior == "ro" else 0o666)
    elif sc.prior == "busy":
        shutil.copy(os.path.join(inputs, "sleeper.gnu"), outp)
        os.chmod(outp, 0o777)
        sleeper = start_sleeper(outp)
    if sc.tmpseed:
        tmps = seed_tmp_names(d, out)
    uid = NOBODY if sc.prior in ("ro", "rodir-file", "rodir-absent") else None
    if sc.prior.startswith("rodir"):
        os.chmod(d, 0o755)
    f = sc.failure
    obj = "ok.o"
    args = []
    env = dict(extra_env or {})
    if f[0] == "natural":
        if f[1] == "undef":
            obj = "undef.o"
            if sc.shared:
                args += ["-z", "defs"]   # undefined symbols are an error in a shared object only on request
        elif f[1] == "ovf":
            obj = "ovf.o"
            args += ["--defsym", "big_sym=0x100000000"]
        elif f[1] == "assert":
            args += ["-T", os.path.join(inputs, "assert.ld")]
        elif f[1] == "depfile":
            args += ["--dependency-file=" + os.path.join(d, "no-such-dir", "x.d")]
        elif f[1] == "missing-input":
            args += [os.path.join(inputs, "does-not-exist.o")]
    elif f[0] == "fault":
        env["WILD_VERIF_FAULT"] = f"{f[1]}:{f[2]}"
    args = [os.path.join(inputs, obj)] + args + ["-o", out, f"--threads={sc.threads}"]
    if sc.shared:
        args.append("-shared")
    if sc.flag == "uip":
        args.append("--update-in-place")
    elif sc.flag == "nouip":
        args.append("--no-update-in-place")
    if not sc.mmap:
        args.append("--no-mmap-output-file")
    args += list(extra_args)
    pins = Pins(d)
    before = snapshot(d)
    st = None
    if strace:
        sd = os.path.join(ctx.scratch, "strace")
        os.makedirs(sd, exist_ok=True)
        os.chmod(sd, 0o777)
        st = os.path.join(sd, f"{tag}.txt")
        if os.path.exists(st):
            os.unlink(st)
    t0 = time.time()
    try:
        rc, err = run_wild(args, d, env=env, uid=uid, strace_out=st)
    finally:
        if sc.prior.startswith("rodir"):
            os.chmod(d, 0o777)
    dt = time.time() - t0
    # the spawned unlink of the temporary may still be in flight in a dying process: give it a moment
    after = snapshot(d)
    alive = None
    if sleeper is not None:
        alive = sleeper.poll() is None
        stop(sleeper)
    pins.close()
    ops, touched = ([], set())
    tmp_names = []
    if st and os.path.exists(st):
        ops, touched = parse_strace(st, out, TMP_RE)
        tmp_names = list(parse_strace.last_link_dests)
    created, deleted, changed = diff_snap(before, after)
    out_state = classify(before, after, out)
    stray = [n for n in created if TMP_RE.match(n)]
    tmp_state = "absent"
    if sc.tmpseed:
        tmp_state = "same" if all(before[n] == after.get(n) for n in tmps) else "other"
    if stray:
        tmp_state = "other"
    others_changed = [n for n in created + deleted + changed if n != out and not (n in stray)]
    if sc.tmpseed:
        others_changed = [n for n in others_changed if n not in tmps]
    return {
        "dir": d, "args": args, "env": env, "rc": rc, "stderr": err[-600:], "before": before, "after": after,
        "ops": ops, "touched": touched, "out": out_state, "tmp": tmp_state, "stray": stray,
        "others_changed": others_changed, "created": created, "deleted": deleted, "changed": changed,
        "sleeper_alive": alive, "wall": dt, "uid": uid, "tmp_names": tmp_names,
    }


def obs_line(o, with_trace=True):
    """The observation in the vocabulary of the model's `of-run` answer."""
    tr = [x for x in o["ops"] if not x.startswith("unlink-tmp")]
    return (f"ok={1 if o['rc'] == 0 else 0} out={o['out']} tmp={o['tmp']} sib={'same' if not o['others_changed'] else 'changed'}"
            + (f" trace={','.join(tr) if tr else '-'}" if with_trace else ""))


def norm_model_line(m, with_trace=True):
    """Drop the fields of the model answer that the observation does not carry (`held`, the
    concurrent `unlink-tmp`)."""
    f = dict(x.split("=", 1) for x in m.split())
    tr = [x for x in f.get("trace", "-").split(",") if x != "-" and not x.startswith("unlink-tmp")]
    return (f"ok={f['ok']} out={f['out']} tmp={f['tmp']} sib={f['sib']}"
            + (f" trace={','.join(tr) if tr else '-'}" if with_trace else ""))


def correspond(ctx, name, pairs):
    """pairs: list of (request_line, observed_line, normaliser). Bookkeeping like ctx.differential."""
    reqs = [p[0] for p in pairs]
    model = ctx.model_eval(reqs) if reqs else []
    c = ctx.cov["correspondences"].setdefault(name, {"requests": 0, "disagreements": 0})
    dis = []
    for (req, obs, norm), m in zip(pairs, model):
        ctx.note_case((name, req, obs), True)
        mm = norm(m)
        if mm != obs:
            dis.append((req, obs, mm))
    c["requests"] += len(pairs)
    c["disagreements"] += len(dis)
    ctx.cov["model_disagreements"] += len(dis)
    if pairs:
        ctx.sample({"correspondence": name, "request": pairs[0][0], "impl": pairs[0][1], "model": pairs[0][2](model[0])})
        k = len(pairs) // 2
        ctx.sample({"correspondence": name, "request": pairs[k][0], "impl": pairs[k][1], "model": pairs[k][2](model[k])})
    if dis:
        ctx.broken.append(f"correspondence {name}: {len(dis)} disagreement(s), first: request={dis[0][0]!r} impl={dis[0][1]!r} model={dis[0][2]!r}")
    return dis


NATURAL = ["undef", "assert", "ovf", "depfile", "missing-input"]
POINTS = ["after-args", "after-inputs-loaded", "after-symbol-resolution", "after-layout", "after-output-created", "mid-write",
          "before-flush", "after-write"]


def scenario_grid(ctx, priors, include_success=True, offset=0, failures=None):
    """Deterministic covering enumeration: every failure x every prior state, with the mode flags,
    thread count, mmap mode and temp-name seeding cycling so that every value of each occurs with
    every failure class. Thorough tier: the full product."""
    if failures is None:
        failures = [("natural", n) for n in NATURAL] + [("fault", p, k) for p in POINTS for k in ("error", "panic")]
    if include_success:
        failures = [("none",)] + failures
    modes = [("default", 0), ("default", 1), ("uip", 0), ("nouip", 0), ("uip", 1)]
    res = []
    if ctx.quick:
        i = offset
        for f in failures:
            for prior in priors:
                flag, shared = modes[i % len(modes)]
                threads = [4, 1][(i // 2) % 2]
                mmap = 0 if i % 3 == 0 else 1
                tmpseed = i % 7 == 3
                res.append(Scenario(prior, tmpseed, flag, shared, threads, mmap, f))
                i += 1
    else:
        for f in failures:
            for prior in priors:
                for flag, shared in modes:
                    for threads in (1, 4):
                        for mmap in (0, 1):
                            res.append(Scenario(prior, (len(res) % 5) == 0, flag, shared, threads, mmap, f))
    return res
