"""C19 - A link touches only its declared outputs."""
import os
import shutil
import time

from vlib.props import c18c21_common as C

NEEDS_WILD = True
LEAN_MODULES = ["WildModel.Props.C19"]
THEOREMS = [
    "Wild.C19.c19_full",
    "Wild.C19.c19_v0_sibling_witness",
    "Wild.C19.c19_v0_out_named_delete_witness",
    "Wild.C19.c19_stray_tmp_witness",
    "Wild.C19.c19_hardlink_witness",
]
LEVEL = "proof"
TRUSTED = [
    "models lean/WildModel/Model/Fs.lean + Model/OutputFile.lean (see C18), tied by the same differential correspondence `of-run` "
    "(final state of output / temporary / sibling + system-call sequence under strace)",
    "side files (dependency file, .layout, .trace, save-dir) are outside the Lean model: plain File::create on user-named paths; covered at run time by "
    "directory snapshots (set of created/changed/deleted names must equal the declared set) and by the strace path set",
    "premises of c19_full: no other name is a hard link to the output's inode (c19_hardlink_witness; documented behaviour of in-place update), "
    "the spawned remove_file(tmp) ran before exit (c19_stray_tmp_witness; checked on every run: a leftover `.NAME.wild-old.PID` is reported)",
]
RULE = ("sandbox directories seeded with adversarial siblings (stem.delete, stem, stem.o, stem.d, dotfiles, NAME.delete, names resembling the temporary, "
        "and 400 files literally named like the temporary of the next pids) x prior output state x write modes x threads x failures incl. success; "
        "declared side files; output literally named *.delete; pairs of concurrent links of x.so / x.o and a / a.so in one directory; "
        "snapshot (name, inode, size, sha256, mode, mtime) before/after + strace path set; distinct by scenario id + observation")
EXPLANATION = ("Upstream moved the old output to `path.with_extension(\"delete\")` with rename(2): a pre-existing sibling `stem.delete` was destroyed, "
               "`x.so` and `x.o` linked concurrently shared one temporary name, and an output itself named `*.delete` could be removed by its own "
               "background unlink (c19_v0_* witnesses). Fix c19-temp-name (applied in /repo): hidden per-process name `.NAME.wild-old.PID`, moved aside "
               "with link(2)+unlink(2) (link never replaces; on EEXIST/EPERM fall back to plain unlink). c19_full is proved for that code.")


try:
    PROTECTED_HARDLINKS = open("/proc/sys/fs/protected_hardlinks").read().strip() == "1"
except OSError:
    PROTECTED_HARDLINKS = False


def _declared(sc_out, extra=()):
    return {sc_out} | set(extra)


def trace_name(out):
    """linker_trace::trace_path: with_extension(<old extension> + ".trace"); an output without extension
    becomes `x..trace` (sic)."""
    stem, dot, ext = out.rpartition(".")
    if not dot or not stem:
        return out + "..trace"
    return out + ".trace"


def _check(ctx, sc, o, declared, label):
    bad = [n for n in o["others_changed"] if n not in declared and n.split(os.sep)[0] not in declared]
    stray = o["stray"]
    if bad:
        ctx.cov["impl_oracle_failures"] += 1
        kinds = []
        for n in bad:
            kinds.append(f"{n}:{'created' if n in o['created'] else 'deleted' if n in o['deleted'] else 'modified'}")
        ctx.violation(f"c19:undeclared-path:{label}:{sc.flag}:{'so' if sc.shared else 'exe'}:{sc.prior}",
                      f"{sc.ident()}: undeclared paths touched: {kinds}",
                      {"scenario": sc.ident(), "cmd": [C.wild_display()] + o["args"], "env": o["env"], "paths": kinds, "rc": o["rc"]})
    if stray:
        ctx.cov["impl_oracle_failures"] += 1
        ctx.violation(f"c19:stray-temporary:{label}", f"{sc.ident()}: temporary left behind: {stray}",
                      {"scenario": sc.ident(), "cmd": [C.wild_display()] + o["args"], "env": o["env"], "rc": o["rc"]})
    # the temporary's name: hidden sibling `.NAME.wild-old.PID` in the output's directory, never the output itself
    for t in o.get("tmp_names", []):
        m = C.TMP_RE.match(os.path.basename(t))
        if not m or m.group(1) != sc.out_name or os.path.dirname(t) not in ("", "."):
            ctx.cov["impl_oracle_failures"] += 1
            ctx.violation(f"c19:temporary-name-shape:{label}", f"{sc.ident()}: old output moved to {t!r}, expected `.{sc.out_name}.wild-old.<pid>` next to it",
                          {"scenario": sc.ident(), "cmd": [C.wild_display()] + o["args"], "name": t})
    # strace path set ⊆ model path set (output, temporary) ∪ declared side files
    d = o["dir"]
    # side files named on the command line are declared outputs too (the failing `depfile` scenario names one in a missing directory)
    declared_abs = {os.path.normpath(os.path.join(d, a.split("=", 1)[1])) for a in o["args"] if a.startswith("--dependency-file=")}
    for p in sorted(o["touched"]):
        ap = os.path.normpath(p if os.path.isabs(p) else os.path.join(d, p))
        if ap.startswith("/dev/") or ap.startswith("/proc/") or ap in declared_abs:
            continue
        rel = os.path.relpath(ap, d)
        top = rel.split(os.sep)[0]
        if rel in declared or top in declared or C.TMP_RE.match(rel):
            continue
        ctx.cov["impl_oracle_failures"] += 1
        ctx.violation(f"c19:strace-undeclared-path:{label}", f"{sc.ident()}: a mutating system call names {p!r}, not a declared output",
                      {"scenario": sc.ident(), "cmd": [C.wild_display()] + o["args"], "path": p})
        break


def run(ctx):
    inputs = C.build_inputs(ctx)
    in_before = C.snapshot(inputs)
    failures = [("natural", "assert"), ("natural", "ovf"), ("natural", "undef"), ("fault", "after-layout", "error"),
                ("fault", "after-output-created", "panic"), ("fault", "before-flush", "error"), ("fault", "after-write", "error")]
    grid = []
    # success in every mode/prior combination, failures cycling
    for prior in ("absent", "file", "busy"):
        for flag, shared in (("default", 0), ("default", 1), ("uip", 0), ("uip", 1), ("nouip", 0)):
            for threads in (4, 1):
                grid.append(C.Scenario(prior, (len(grid) % 3) == 1, flag, shared, threads, 1 if len(grid) % 4 else 0, ("none",)))
    grid += C.scenario_grid(ctx, ["file", "busy", "absent"], include_success=False, offset=1, failures=failures)
    if not ctx.quick:
        grid += C.scenario_grid(ctx, ["file", "busy", "absent", "ro"], include_success=True)
    pairs = []
    for sc in grid:
        o = C.run_scenario(ctx, sc, inputs, tag="c19")
        ctx.count("failure", ":".join(sc.failure))
        ctx.count("prior", sc.prior)
        ctx.count("mode", f"{sc.flag}/{'so' if sc.shared else 'exe'}/t{sc.threads}")
        ctx.count("tmpseed", str(sc.tmpseed))
        ol = C.obs_line(o)
        if sc.prior == "ro" and not sc.tmpseed and PROTECTED_HARDLINKS and "trace=link:err," in ol:
            # fs.protected_hardlinks=1: the kernel refuses link(2) on a file the caller neither owns nor can write (the prior output
            # belongs to root, the link runs as nobody). The model's file system has no such policy knob; the step is optional in
            # the protocol (its failure is ignored by the code) and the rest of the trace and the final state are still compared.
            ol = ol.replace("trace=link:err,", "trace=link:ok,")
            ctx.count("kernel-policy", "protected_hardlinks refused link(2) of the prior output")
        pairs.append((sc.model_line(), ol, C.norm_model_line))
        _check(ctx, sc, o, _declared(sc.out_name), "grid")
    C.correspond(ctx, "output-file-state-machine", pairs)
    _side_files(ctx, inputs)
    _named_delete(ctx, inputs)
    _concurrent(ctx, inputs)
    in_after = C.snapshot(inputs)
    if in_after != in_before:
        cr, de, ch = C.diff_snap(in_before, in_after)
        ctx.cov["impl_oracle_failures"] += 1
        ctx.violation("c19:input-modified", f"input files changed by linking: created={cr} deleted={de} changed={ch}", {"inputs": inputs})


def _side_files(ctx, inputs):
    """dependency file, layout, trace, save-dir: exactly the declared names appear."""
    for threads in (4, 1):
        for shared in (0, 1):
            sc = C.Scenario("file", False, "default", shared, threads, 1, ("none",))
            out = sc.out_name
            extra = ["--dependency-file=dep.d", "--write-layout", "--write-trace"]
            o = C.run_scenario(ctx, sc, inputs, tag="c19s", extra_args=extra)
            ctx.note_case(("side", threads, shared, tuple(o["created"])), True)
            declared = {out, "dep.d", out + ".layout", trace_name(out)}
            _check(ctx, sc, o, declared, "side-files")
            missing = [n for n in ("dep.d", out + ".layout", trace_name(out)) if n not in o["after"]]
            if o["rc"] != 0 or missing:
                ctx.broken.append(f"side-file scenario failed: rc={o['rc']} missing={missing} {o['stderr'][-200:]}")
            ctx.count("side", "dep+layout+trace")
    sc = C.Scenario("file", False, "default", 0, 4, 1, ("none",))
    d0 = os.path.join(ctx.scratch, "sb-c19sd")
    o = C.run_scenario(ctx, sc, inputs, tag="c19sd", extra_env={"WILD_SAVE_DIR": os.path.join(d0, "saved")})
    ctx.note_case(("save-dir", tuple(sorted(x.split(os.sep)[0] for x in o["created"]))), True)
    _check(ctx, sc, o, {sc.out_name, "saved"}, "save-dir")
    if "saved" not in o["after"]:
        ctx.broken.append(f"save-dir scenario produced no bundle: rc={o['rc']} {o['stderr'][-200:]}")
    ctx.count("side", "save-dir")


def _named_delete(ctx, inputs):
    """The output itself carries the historical temporary extension."""
    for name, shared in (("x.delete", 1), ("lib.delete", 1), ("y.delete", 0)):
        for rep in range(2 if ctx.quick else 10):
            sc = C.Scenario("file", False, "nouip" if not shared else "default", shared, 4, 1, ("none",), out_name=name)
            o = C.run_scenario(ctx, sc, inputs, tag="c19d")
            ctx.note_case(("named-delete", name, rep, o["out"]), True)
            ctx.count("side", "output-named-*.delete")
            _check(ctx, sc, o, {name}, "named-delete")
            if o["rc"] == 0 and o["out"] != "new":
                ctx.cov["impl_oracle_failures"] += 1
                ctx.violation("c19:output-named-delete-lost", f"link of `{name}` exited 0 but the output is {o['out']}",
                              {"cmd": [C.wild_display()] + o["args"], "rc": o["rc"]})


def _concurrent(ctx, inputs):
    """Two links in one directory whose outputs share a stem (x.so / x.o, a / a.so), old outputs present."""
    rounds = 6 if ctx.quick else 40
    for r in range(rounds):
        d = C.mk_sandbox(ctx, "c19c")
        if r % 2 == 0:
            jobs = [("x.so", ["-shared"]), ("x.o", ["-r"])]
        else:
            jobs = [("a.so", ["-shared"]), ("a", ["--no-update-in-place"])]
        sibs = C.seed_siblings(d, jobs[0][0])
        for out, _ in jobs:
            with open(os.path.join(d, out), "w") as f:
                f.write("PRIOR " + out + "\n")
        pins = C.Pins(d)
        before = C.snapshot(d)
        procs = [C.spawn_wild([os.path.join(inputs, "ok.o"), "-o", out, "--threads=4"] + extra, d) for out, extra in jobs]
        res = []
        for p in procs:
            try:
                so, se = p.communicate(timeout=120)
            except Exception:
                p.kill()
                so, se = p.communicate()
            res.append((p.returncode, se.decode(errors="replace")[-200:]))
        after = C.snapshot(d)
        pins.close()
        created, deleted, changed = C.diff_snap(before, after)
        outs = {o for o, _ in jobs}
        other = [n for n in created + deleted + changed if n not in outs]
        ctx.note_case(("concurrent", r, tuple(rc for rc, _ in res), tuple(other)), True)
        ctx.count("side", "concurrent-pair")
        bad_out = []
        for out, _ in jobs:
            st = C.classify(before, after, out)
            ok_elf = out in after and open(os.path.join(d, out), "rb").read(4) == b"\x7fELF"
            # `-r` / executables with an existing output are updated in place by default: "modified" is fine
            if st not in ("new", "modified") or not ok_elf:
                bad_out.append((out, st, ok_elf))
        if other or bad_out or any(rc != 0 for rc, _ in res):
            ctx.cov["impl_oracle_failures"] += 1
            ctx.violation("c19:concurrent-links-collide",
                          f"concurrent links of {sorted(outs)}: rcs={[rc for rc, _ in res]} undeclared paths touched={other} outputs not freshly written={bad_out}",
                          {"dir_before": sorted(before), "jobs": jobs, "stderr": [e for _, e in res]})
