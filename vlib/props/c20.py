"""C20 - Inputs changed during a link make the link fail."""
import os
import shutil
import subprocess
import time

from vlib import runner
from vlib.props import c18c21_common as C

NEEDS_WILD = True
LEAN_MODULES = ["WildModel.Props.C20"]
THEOREMS = [
    "Wild.C20.c20_partial",
    "Wild.C20.c20_precedence",
    "Wild.C20.unchanged_passes",
    "Wild.C20.rewrite_detected_iff",
    "Wild.C20.touch_detected_iff",
    "Wild.C20.replace_by_rename_detected_iff",
    "Wild.C20.remove_detected",
    "Wild.C20.same_tick_witness",
    "Wild.C20.c20_full_witness",
    "Wild.C20.restore_mtime_witness",
]
LEVEL = "proof"
TRUSTED = [
    "model lean/WildModel/Model/InputsChanged.lean of FileData::open (fstat mtime before mmap) / FileLoader::verify_inputs_unchanged (stat by path, "
    "entries without data skipped) / precedence in link_for_arch, over the clock of Model/Fs; tied by `ic-run` correspondence: the hooked wild is parked at a "
    "pause point (/repo/libwild/src/verif_api/pause.rs), an input is mutated, the link is released, exit status + error class compared with the model",
    "runtime parameter: timestamp granularity of the kernel/file system (measured and recorded in the evidence); a rewrite inside the tick of the recorded "
    "mtime is invisible to the mechanism (same_tick_witness)",
    "mmap semantics (a truncated input raises SIGBUS) are not modelled; the mutations used here never shrink a mapped file",
]
RULE = ("4 pause points (after-inputs-loaded, after-symbol-resolution, after-layout, after-write) x 8 mutations (rewrite same size, append, replace by rename, "
        "replace by rename with the old mtime, touch, rewrite + restore mtime, remove, none) x 4 input kinds (object, archive, thin-archive member, linker script), "
        "plus the same with a link that fails on its own (fault after-write:error) for precedence; distinct by (point, mutation, input kind, link result)")
ASSUMPTIONS = [
    "documented boundary (not violations): rewrite + restored mtime and replacement by a file carrying the old mtime are missed; a pure touch fails the link (false positive by design)",
]
EXPLANATION = ("c20_partial: every change that alters the recorded identity (mtime through the path at verification time != mtime recorded at open, or the path is gone) "
               "fails the link whatever the link result, and the inputs-changed error wins (c20_precedence). C20_full (any content change) is refuted by "
               "same_tick_witness / restore_mtime_witness; DESIGN level: partial (proof of the partial statement; timestamp granularity is a runtime parameter).")

POINTS = ["after-inputs-loaded", "after-symbol-resolution", "after-layout", "after-write"]
MUTS = ["rewrite", "append", "rename", "rename-same-mtime", "rename-older", "backdate", "touch", "restore", "remove", "none"]
KINDS = ["object", "archive", "thin-member", "script"]
MODEL_MUT = {"rewrite": ("rewrite", 1), "append": ("append", 1), "rename": ("rename", 1), "rename-same-mtime": ("rename", 0), "touch": ("touch", 1),
             "restore": ("restore", 1), "remove": ("remove", 1), "none": ("none", 1),
             # the recorded identity changes, but to an OLDER timestamp (a cached / `cp -p` artifact renamed over the input; a rewrite
             # followed by a back-dated mtime): still a change of the mtime the link recorded at open
             "rename-older": ("rename", 1), "backdate": ("rewrite", 1)}
CONTENT_CHANGING = {"rewrite", "append", "rename", "remove", "rename-older", "backdate"}


def setup(ctx, inputs, tag="c20"):
    d = C.mk_sandbox(ctx, tag)
    for n in ("main.o", "foo.o", "bar.o"):
        shutil.copy(os.path.join(inputs, n), os.path.join(d, n))
    rc, out = runner.sh(["ar", "rc", "libfoo.a", "foo.o"], cwd=d)
    rc2, out2 = runner.sh(["ar", "rcT", "libbar.a", "bar.o"], cwd=d)
    if rc or rc2:
        raise runner.BuildError("ar failed: " + out + out2)
    os.unlink(os.path.join(d, "foo.o"))
    open(os.path.join(d, "script.ld"), "w").write("/* linker script input AAAAAAAA */\nENTRY(_start)\n")
    return d


TARGET = {"object": "main.o", "archive": "libfoo.a", "thin-member": "bar.o", "script": "script.ld"}


def mutate(path, mut):
    st = os.stat(path)
    data = open(path, "rb").read()
    if path.endswith(".ld"):
        new = data.replace(b"AAAAAAAA", b"BBBBBBBB")
    else:
        new = data.replace(b"\x11" * 8, b"\x22" * 8)
    assert new != data and len(new) == len(data), path
    older = st.st_mtime_ns - 3600 * 10 ** 9
    if mut in ("rewrite", "restore", "backdate"):
        with open(path, "r+b") as f:
            f.write(new)
        if mut == "restore":
            os.utime(path, ns=(st.st_atime_ns, st.st_mtime_ns))
        if mut == "backdate":
            os.utime(path, ns=(st.st_atime_ns, older))
    elif mut == "append":
        with open(path, "ab") as f:
            f.write(b"\n" if path.endswith(".ld") else b"\0" * 8)
    elif mut in ("rename", "rename-same-mtime", "rename-older"):
        tmp = path + ".new"
        with open(tmp, "wb") as f:
            f.write(new)
        if mut == "rename-same-mtime":
            os.utime(tmp, ns=(st.st_atime_ns, st.st_mtime_ns))
        if mut == "rename-older":
            os.utime(tmp, ns=(st.st_atime_ns, older))
        os.replace(tmp, path)
    elif mut == "touch":
        os.utime(path, None)
    elif mut == "remove":
        os.unlink(path)


def classify(rc, err):
    if rc == 0:
        return "ok"
    if "was changed while we were running" in err:
        return "inputs-changed"
    if "Failed to read metadata" in err:
        return "metadata-error"
    return "link-error"


def one(ctx, inputs, point, mut, kind, link_ok, slot=0):
    d = setup(ctx, inputs, f"c20-{slot}")
    time.sleep(0.03)   # leave the clock tick in which the inputs were written
    gate = os.path.join(ctx.scratch, f"gate-{slot}")
    for p in (gate, gate + ".reached"):
        if os.path.exists(p):
            os.unlink(p)
    env = {"WILD_VERIF_PAUSE": f"{point}:{gate}"}
    if not link_ok:
        env["WILD_VERIF_FAULT"] = "after-write:error"
    args = ["main.o", "libfoo.a", "libbar.a", "script.ld", "-o", "out", "--threads=4"]
    p = C.spawn_wild(args, d, env=env)
    reached = False
    t0 = time.time()
    while time.time() - t0 < 60:
        if os.path.exists(gate + ".reached"):
            reached = True
            break
        if p.poll() is not None:
            break
        time.sleep(0.002)
    if reached and mut != "none":
        mutate(os.path.join(d, TARGET[kind]), mut)
    open(gate, "w").close()
    try:
        so, se = p.communicate(timeout=90)
    except subprocess.TimeoutExpired:
        p.kill()
        so, se = p.communicate()
    err = (so + se).decode(errors="replace")
    return reached, p.returncode, err, args, env


def granularity(ctx):
    """Measured timestamp granularity of the scratch file system (runtime parameter of the model)."""
    p = os.path.join(ctx.scratch, "gran.probe")
    seen = []
    for i in range(3000):
        with open(p, "wb") as f:
            f.write(b"%d" % i)
        seen.append(os.stat(p).st_mtime_ns)
    distinct = sorted(set(seen))
    deltas = [b - a for a, b in zip(distinct, distinct[1:]) if b > a]
    same = sum(1 for a, b in zip(seen, seen[1:]) if a == b)
    return {"rewrites": len(seen), "distinct_mtimes": len(distinct), "min_delta_ns": min(deltas) if deltas else None,
            "consecutive_rewrites_with_equal_mtime": same}


def run(ctx):
    inputs = C.build_inputs(ctx)
    g = granularity(ctx)
    ctx.cov["input_distribution"]["timestamp_granularity_probe"] = g
    ctx.assumptions.append(f"measured on this run: {g['rewrites']} back-to-back rewrites produced {g['distinct_mtimes']} distinct mtimes, smallest step "
                           f"{g['min_delta_ns']} ns, {g['consecutive_rewrites_with_equal_mtime']} consecutive rewrites shared one mtime "
                           "(a rewrite inside the tick of the recorded mtime is undetectable: same_tick_witness)")
    cases = [(pt, m, k, 1) for pt in POINTS for m in MUTS for k in KINDS]
    # precedence over the link's own failure
    cases += [(pt, m, k, 0) for pt, m, k in [("after-inputs-loaded", "rewrite", "object"), ("after-layout", "append", "archive"),
                                               ("after-symbol-resolution", "rename", "thin-member"), ("after-layout", "touch", "script"),
                                               ("after-inputs-loaded", "remove", "archive"), ("after-layout", "restore", "object"),
                                               ("after-symbol-resolution", "none", "object"), ("after-layout", "rename-same-mtime", "script")]]
    if ctx.quick:
        # quick: full product at the first point; the other points take every second (mutation, kind) pair, so that every
        # (point, mutation) and (point, kind) combination still occurs
        cases = [c for c in cases if c[3] == 0 or c[0] in ("after-inputs-loaded",)
                 or (MUTS.index(c[1]) + KINDS.index(c[2]) + POINTS.index(c[0])) % 2 == 0]
    pairs = []
    # the scenarios are independent (own sandbox + gate per slot): run 4 at a time, evaluate in enumeration order
    from concurrent.futures import ThreadPoolExecutor
    import queue
    slots = queue.Queue()
    for i in range(4):
        slots.put(i)

    def job(c):
        slot = slots.get()
        try:
            return one(ctx, inputs, c[0], c[1], c[2], c[3], slot)
        finally:
            slots.put(slot)

    with ThreadPoolExecutor(max_workers=4) as ex:
        results = list(ex.map(job, cases))
    for (pt, m, k, ok), (reached, rc, err, args, env) in zip(cases, results):
        obs = classify(rc, err)
        ctx.count("point", pt)
        ctx.count("mutation", m)
        ctx.count("input-kind", k)
        ctx.count("observed", f"{m}:{obs}")
        if not reached:
            ctx.broken.append(f"pause point {pt} was not reached (rc={rc}): {err[-200:]}")
            continue
        mm, differs = MODEL_MUT[m]
        pairs.append((f"ic-run {mm} 0 {differs} {ok}", obs, lambda x: x))
        # the property itself, independent of the model
        if m in CONTENT_CHANGING and rc == 0:
            ctx.cov["impl_oracle_failures"] += 1
            ctx.violation(f"c20:missed:{m}:{k}:{pt}",
                          f"{k} `{TARGET[k]}` was modified ({m}) while the link was parked at {pt}, and the link still exited 0",
                          {"cmd": [C.wild_display()] + args, "env": env, "mutation": m, "target": TARGET[k],
                           "how": "run cmd with env in a directory holding main.o libfoo.a(foo.o) libbar.a(thin: bar.o) script.ld; when <gate>.reached appears apply the mutation, then create <gate>"})
        if m in ("restore", "rename-same-mtime") and rc == 0:
            ctx.count("boundary", f"missed-as-documented:{m}:{k}")
    C.correspond(ctx, "inputs-changed", pairs)
