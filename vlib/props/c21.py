"""C21 - Relinking never alters a running program or loaded library."""
import os
import shutil
import signal
import subprocess
import time

from vlib import runner
from vlib.props import c18c21_common as C

NEEDS_WILD = True
LEAN_MODULES = ["WildModel.Props.C21"]
THEOREMS = [
    "Wild.C21.c21_same_kind",
    "Wild.C21.c21_kind_change_witness",
    "Wild.C21.c21_update_in_place_witness",
    "Wild.C21.c21_mapped_executable_witness",
]
LEVEL = "proof"
TRUSTED = [
    "models lean/WildModel/Model/Fs.lean (holder processes: executing => open for write fails with ETXTBSY; mapped => stores into the file are visible) and "
    "Model/OutputFile.lean, tied by `of-run` correspondence on real runs: a process executing the previous output / a process that dlopen'ed it is alive during the relink",
    "kernel semantics assumed, and observed on this kernel in every run: ETXTBSY for open(O_RDWR) of a running executable; file-backed private mappings show later stores into the file",
    "the holder's view is measured from inside the holder (FNV-1a over the mapped blob + return value of a library function, on SIGUSR1) and through /proc/<pid>/exe",
]
RULE = ("scenarios: running executable x {threads 4, 1} x {mmap, no-mmap} x {default, --no-update-in-place}; dlopen'ed shared object x the same; relink with CHANGED object "
        "content (so that an in-place update is visible); boundary runs (premise not met, recorded, not violations): kind change .so -> executable at the same path, "
        "--update-in-place on a mapped library, --update-in-place on a running executable, executable started through ld.so (mapped, not execve'd); distinct by scenario")
ASSUMPTIONS = ["'default options' premise: no --update-in-place; same output kind as the previous link at that path"]
EXPLANATION = ("c21_same_kind is proved for all prior states, thread modes, failure points and schedules; the statement is conditional on the kernel's ETXTBSY / mapping "
               "semantics are parameters of the model (validated here on the running kernel); DESIGN level: partial.")

HOLDER_C = r"""
#include <dlfcn.h>
#include <signal.h>
#include <stdio.h>
#include <stdint.h>
#include <unistd.h>
int main(int argc, char **argv) {
  sigset_t set;
  sigemptyset(&set);
  sigaddset(&set, SIGUSR1);
  sigprocmask(SIG_BLOCK, &set, 0);   /* no lost wake-ups: the signal stays pending until sigwait */
  void *L = dlopen(argv[1], RTLD_NOW | RTLD_LOCAL);
  if (!L) { fprintf(stderr, "dlopen: %s\n", dlerror()); return 2; }
  const unsigned char *b = dlsym(L, "blob_start"), *e = dlsym(L, "blob_end");
  int (*fn)(void) = (int (*)(void))dlsym(L, "lib_fn");
  if (!b || !e || !fn) { fprintf(stderr, "dlsym failed\n"); return 3; }
  printf("ready %ld\n", (long)(e - b)); fflush(stdout);
  for (;;) {
    int sig = 0;
    if (sigwait(&set, &sig) != 0) continue;
    uint64_t s = 1469598103934665603ull;
    for (const unsigned char *p = b; p < e; p++) { s ^= *p; s *= 1099511628211ull; }
    printf("sum %016llx fn %d\n", (unsigned long long)s, fn()); fflush(stdout);
  }
}
"""


def lib_asm(v):
    return (".globl lib_fn, blob_start, blob_end\n.text\n.type lib_fn,@function\nlib_fn:\n  mov $%d,%%eax\n  ret\n"
            ".section .rodata\n.type blob_start,@object\nblob_start:\n  .fill 65536,1,%d\nblob_end:\n  .byte 0\n" % (v, v))


def build(ctx, inputs):
    d = os.path.join(ctx.scratch, "c21")
    os.makedirs(d, exist_ok=True)
    for name, v in (("lib1", 0x5a), ("lib2", 0x25)):
        open(os.path.join(d, name + ".s"), "w").write(lib_asm(v))
        rc, out = runner.sh(["as", os.path.join(d, name + ".s"), "-o", os.path.join(d, name + ".o")])
        if rc != 0:
            raise runner.BuildError("as failed: " + out)
    open(os.path.join(d, "holder.c"), "w").write(HOLDER_C)
    rc, out = runner.sh(["gcc", "-O1", "-o", os.path.join(d, "holder"), os.path.join(d, "holder.c"), "-ldl"])
    if rc != 0:
        raise runner.BuildError("gcc holder failed: " + out)
    return d


class Holder:
    def __init__(self, exe, lib):
        self.p = subprocess.Popen([exe, lib], stdout=subprocess.PIPE, stderr=subprocess.PIPE, text=True)
        line = self.p.stdout.readline()
        self.ready = line.startswith("ready")
        self.err = "" if self.ready else (line + self.p.stderr.read())

    def query(self):
        if self.p.poll() is not None:
            return "dead:%s" % self.p.returncode
        self.p.send_signal(signal.SIGUSR1)
        import select
        r, _, _ = select.select([self.p.stdout], [], [], 30)
        if not r:
            return "dead:%s" % self.p.poll() if self.p.poll() is not None else "timeout"
        line = self.p.stdout.readline().strip()
        return line if line else "dead:%s" % self.p.poll()

    def stop(self):
        C.stop(self.p)


def flags(threads, mmap, mode):
    a = [f"--threads={threads}"]
    if not mmap:
        a.append("--no-mmap-output-file")
    if mode == "uip":
        a.append("--update-in-place")
    elif mode == "nouip":
        a.append("--no-update-in-place")
    return a


def model_req(prior, mode, shared, threads, mmap):
    return f"of-run v1 {prior} absent {mode} {shared} {1 if threads == 1 else 0} {mmap} none 110"


def norm(m):
    f = dict(x.split("=", 1) for x in m.split())
    return f"ok={f['ok']} out={f['out']} held={f['held']}"


def run(ctx):
    inputs = C.build_inputs(ctx)
    aux = build(ctx, inputs)
    pairs = []
    combos = [(4, 1, "default"), (1, 1, "default"), (4, 0, "default"), (1, 0, "default"), (4, 1, "nouip")]
    if not ctx.quick:
        combos = combos * 5
    # ---- (a) running executable
    for threads, mmap, mode in combos:
        obs = _exe_scenario(ctx, inputs, threads, mmap, mode, premise=True)
        pairs.append((model_req("busy", mode, 0, threads, mmap), obs, norm))
    # ---- (b) dlopen'ed shared object
    for threads, mmap, mode in combos:
        obs = _lib_scenario(ctx, aux, inputs, threads, mmap, mode, new_kind="so", premise=True)
        pairs.append((model_req("mapped", mode, 1, threads, mmap), obs, norm))
    # ---- (b') the same through a symlinked output path (not part of the model correspondence: the property itself is checked)
    for threads, mmap, mode in combos[:2] if ctx.quick else combos:
        obs = _lib_scenario(ctx, aux, inputs, threads, mmap, mode, new_kind="so", premise=True, symlink=True)
        ctx.count("symlinked-output", obs)
    # ---- (b'') the same after a killed earlier link left its temporary name behind and the pid is reused (checked directly, as b')
    for threads, mmap, mode in combos[:3] if ctx.quick else combos:
        obs = _lib_scenario(ctx, aux, inputs, threads, mmap, mode, new_kind="so", premise=True, stale=True)
        ctx.count("stale-temporary-name", obs)
    # ---- (c) boundary runs: premise not met; recorded, compared with the model, never violations
    for threads in (4, 1):
        obs = _lib_scenario(ctx, aux, inputs, threads, 1, "default", new_kind="exe", premise=False)
        pairs.append((model_req("mapped", "default", 0, threads, 1), obs, norm))
        ctx.count("boundary", f"kind-change-so-to-exe/t{threads}:{obs}")
    obs = _lib_scenario(ctx, aux, inputs, 4, 1, "uip", new_kind="so", premise=False)
    pairs.append((model_req("mapped", "uip", 1, 4, 1), obs, norm))
    ctx.count("boundary", f"update-in-place-on-mapped-lib:{obs}")
    obs = _exe_scenario(ctx, inputs, 4, 1, "uip", premise=False)
    pairs.append((model_req("busy", "uip", 0, 4, 1), obs, norm))
    ctx.count("boundary", f"update-in-place-on-running-exe:{obs}")
    C.correspond(ctx, "relink-while-held", pairs)


def _exe_scenario(ctx, inputs, threads, mmap, mode, premise):
    d = C.mk_sandbox(ctx, "c21a")
    obj = os.path.join(d, "prog.o")
    shutil.copy(os.path.join(inputs, "sleeper.o"), obj)
    cmd = [obj, "-o", "prog"] + flags(threads, mmap, mode if mode != "uip" else "default")
    rc, err = C.run_wild(cmd, d)
    if rc != 0:
        ctx.broken.append(f"C21 setup link failed: {err[-200:]}")
        return "setup-failed"
    prog = os.path.join(d, "prog")
    p = C.start_sleeper(prog)
    try:
        st0 = os.stat(f"/proc/{p.pid}/exe")
        h0 = C.sha(f"/proc/{p.pid}/exe")
        old_path = os.stat(prog)
        # relink the SAME command after the source changed
        shutil.copy(os.path.join(inputs, "sleeper2.o"), obj)
        cmd2 = [obj, "-o", "prog"] + flags(threads, mmap, mode)
        rc, err = C.run_wild(cmd2, d)
        alive = p.poll() is None
        same = False
        if alive:
            st1 = os.stat(f"/proc/{p.pid}/exe")
            h1 = C.sha(f"/proc/{p.pid}/exe")
            same = (st1.st_ino == st0.st_ino and h1 == h0 and st1.st_size == st0.st_size)
        newst = os.stat(prog) if os.path.exists(prog) else None
        if newst is None:
            out = "absent"
        elif newst.st_ino != old_path.st_ino:
            out = "new"
        else:
            out = "same" if C.sha(prog) == h0 else "modified"
        held = "same" if same else "changed"
        ctx.count("exe", f"{mode}/t{threads}/{'mmap' if mmap else 'nommap'}:rc{rc}:{out}:{held}")
        if premise and held != "same":
            ctx.cov["impl_oracle_failures"] += 1
            ctx.violation(f"c21:running-exe-altered:{mode}:t{threads}:{'mmap' if mmap else 'nommap'}",
                          f"relinking a running executable (threads={threads}, mmap={mmap}, {mode}) changed what the process sees (alive={alive}, rc={rc})",
                          {"setup": [C.wild_display()] + cmd, "run ./prog &, then": [C.wild_display()] + cmd2, "observe": "sha256sum /proc/<pid>/exe; stat -L -c %i /proc/<pid>/exe"})
        if premise and rc == 0 and out != "new":
            ctx.cov["impl_oracle_failures"] += 1
            ctx.violation(f"c21:running-exe-not-replaced:{mode}:t{threads}", f"relink exited 0 but the path still names the old inode ({out})",
                          {"setup": [C.wild_display()] + cmd, "then": [C.wild_display()] + cmd2})
        return f"ok={1 if rc == 0 else 0} out={out} held={held}"
    finally:
        C.stop(p)


def plant_stale_temporaries(d, name, span=2000):
    """History: an earlier link of the same output was killed after it had given the old file its temporary second name
    `.<output>.wild-old.<pid>`, and the process id has since been reused. The next process ids are allocated sequentially, so a
    stale file is planted for each of the next `span` ids."""
    p = subprocess.Popen(["true"])
    p.wait()
    pid_max = int(open("/proc/sys/kernel/pid_max").read())
    for k in range(1, span + 1):
        q = p.pid + k
        if q >= pid_max:
            q = 300 + (q - pid_max)
        with open(os.path.join(d, f".{name}.wild-old.{q}"), "w") as f:
            f.write("stale")


def _lib_scenario(ctx, aux, inputs, threads, mmap, mode, new_kind, premise, symlink=False, stale=False):
    d = C.mk_sandbox(ctx, "c21b")
    obj = os.path.join(d, "lib.o")
    shutil.copy(os.path.join(aux, "lib1.o"), obj)
    lib = os.path.join(d, "libh.so")
    # symlink=True: the usual `libh.so -> libh.so.1` arrangement; the holder loads and the relink writes through the link name
    cmd = [obj, "-shared", "-o", "libh.so.1" if symlink else "libh.so"] + flags(threads, mmap, mode if mode != "uip" else "default")
    rc, err = C.run_wild(cmd, d)
    if symlink and rc == 0:
        os.symlink("libh.so.1", lib)
    if rc != 0:
        ctx.broken.append(f"C21 setup link of the library failed: {err[-200:]}")
        return "setup-failed"
    h = Holder(os.path.join(aux, "holder"), lib)
    try:
        if not h.ready:
            ctx.broken.append(f"holder could not dlopen the wild-linked library: {h.err[-200:]}")
            return "setup-failed"
        v0 = h.query()
        ino0 = os.stat(lib).st_ino
        sha0 = C.sha(lib)
        if new_kind == "so":
            shutil.copy(os.path.join(aux, "lib2.o"), obj)
            cmd2 = [obj, "-shared", "-o", "libh.so"] + flags(threads, mmap, mode)
        else:
            shutil.copy(os.path.join(inputs, "sleeper2.o"), obj)
            cmd2 = [obj, "-o", "libh.so"] + flags(threads, mmap, mode)
        if stale:
            plant_stale_temporaries(d, "libh.so")
        rc, err = C.run_wild(cmd2, d)
        v1 = h.query()
        v2 = h.query()
        held = "same" if (v0 == v1 == v2 and v0.startswith("sum")) else "changed"
        if not os.path.exists(lib):
            out = "absent"
        elif os.stat(lib).st_ino != ino0:
            out = "new"
        else:
            out = "same" if C.sha(lib) == sha0 else "modified"
        # sensitivity: a fresh holder of the new library must see different bytes
        if new_kind == "so" and rc == 0:
            h2 = Holder(os.path.join(aux, "holder"), lib)
            try:
                w = h2.query() if h2.ready else "notready"
            finally:
                h2.stop()
            if w == v0:
                ctx.broken.append("C21 sensitivity: the relinked library has the same checksum as the old one; the scenario cannot see in-place updates")
        ctx.count("lib", f"{mode}/t{threads}/{'mmap' if mmap else 'nommap'}/new={new_kind}:rc{rc}:{out}:{held}")
        if premise and held != "same":
            ctx.cov["impl_oracle_failures"] += 1
            ctx.violation(f"c21:loaded-library-altered:{mode}:t{threads}:{'mmap' if mmap else 'nommap'}",
                          f"relinking a dlopen'ed shared object (threads={threads}, mmap={mmap}, {mode}) changed the bytes the holder sees: before {v0!r}, after {v1!r}",
                          {"setup": [C.wild_display()] + cmd, "holder": [os.path.join(aux, 'holder'), lib], "then": [C.wild_display()] + cmd2, "observe": "kill -USR1 <holder>; compare the printed checksum"})
        if premise and rc == 0 and out != "new":
            ctx.cov["impl_oracle_failures"] += 1
            ctx.violation(f"c21:loaded-library-not-replaced:{mode}:t{threads}", f"relink exited 0 but the library path still names the old inode ({out})",
                          {"setup": [C.wild_display()] + cmd, "then": [C.wild_display()] + cmd2})
        return f"ok={1 if rc == 0 else 0} out={out} held={held}"
    finally:
        h.stop()
