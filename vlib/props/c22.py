"""C22 - Malformed input produces a diagnostic, never a crash.

Proof side (lean/WildModel/Props/C22.lean): no-panic / in-bounds / fuel theorems for the MODELLED parsers
(x86-64 relaxation look-behind, archive walk, response-file tokenizer; reused: expression parser C16,
section rules C15).  LOUDLY: absence of panics in the unmodelled bulk (object crate, layout.rs,
elf_writer.rs, symbol_db.rs, winnow grammars) is NOT carried by any theorem; stream (b) below is only a
search for failing inputs there.

Tie:
 (a) in-process (wvh, catch_unwind): byte-level mutations + generated texts through the real
     `ArchiveIterator`, `read_args_from_file`, `new_relaxation`, linker-script / version-script /
     export-list parsers.  Model and code must agree (result class, entries, arguments) where a model
     exists, and nothing may panic anywhere.
 (b) real binary: structured byte-level mutations of a small corpus of valid .o/.a/.so inputs and of
     the text inputs, plus generated argument lists.  Per run: exit 0 or a clean error (non-zero + a
     message), no signal, no 'panicked at', no exit 101, within a wall-clock bound.
A crash is keyed by (input kind, field class, panic location file:line); recorded keys are printed as
KNOWN-FINDING, any other crash is a VIOLATION with the mutated input saved under replays/C22-files/.
"""
import concurrent.futures
import hashlib
import os
import re
import shutil
import struct
import time

from .. import linkutil as lu
from .. import runner

NEEDS_WILD = True
LEAN_MODULES = ["WildModel.Props.C22"]
THEOREMS = [
    "Wild.C22.relax_window_in_bounds",
    "Wild.C22.code4Guard_spec",
    "Wild.C22.old_gotpcrelx_panics_iff",
    "Wild.C22.old_tlsgd_panics_iff",
    "Wild.C22.old_tlsld_panics_iff",
    "Wild.C22.old_tlsdesc_second_arm_panics_iff",
    "Wild.C22.old_lookbehind_witnesses",
    "Wild.C22.old_rex_gotpcrelx_out_of_bounds",
    "Wild.C22.archive_total",
    "Wild.C22.archive_in_bounds",
    "Wild.C22.walk_fuel_sufficient",
    "Wild.C22.old_archive_unwrap_panics",
    "Wild.C22.args_total",
    "Wild.C22.args_plain_accepted",
    "Wild.C22.expr_parser_total",
    "Wild.C15.from_rules_lookup_total",
]
LEVEL = "proof"
TRUSTED = [
    "LIMIT OF THE PROOF: only the modelled parsers (x86-64 relaxation decision, archive walk, response-file tokenizer, expression parser, "
    "section-rule lookup) are covered by theorems. Absence of panics/aborts/hangs in the unmodelled bulk - the `object` crate's ELF parsing, "
    "layout.rs, elf_writer.rs, symbol_db.rs, the winnow grammars of linker scripts / version scripts / export lists, argument handling - is "
    "NOT carried by any theorem; there the mutation stream is only a search for failing inputs (sampled, not exhaustive).",
    "hand-written models lean/WildModel/Model/Malformed.lean (archive walk = object 0.39 ArchiveFile::parse/ArchiveMember::parse/data + "
    "wild's ArchiveIterator; arguments_from_string) and Model/X86Relax.lean (C14), tied by differential correspondence mal-archive / "
    "mal-args / x86relax on mutated and generated inputs",
    "AIX big archives are outside the archive model (both sides answer `aixbig`; the real parser is still executed for panics)",
    "debug-profile binary (overflow checks on): a release build wraps where the debug build panics on arithmetic overflow",
    "hang detection = 10 s wall clock per link (re-run once with 30 s before reporting)",
]
ASSUMPTIONS = [
    "response-file model is exercised on ASCII input (Rust reads the file as UTF-8; non-UTF-8 bytes are rejected by read_to_string before the tokenizer)",
]
RULE = ("one case = one mutant (one field overwrite / truncation / byte-flip set / generated text or argument list) pushed through the real "
        "binary or one in-process request; non-trivial = the mutant differs from the valid input; distinct by hash of (input kind, mutation)")

TIMEOUT = 10
PAR = 12


# ================================================================ corpus
A_S = r"""
    .text
    .globl fa, fb, tls_get, use_str, cmd1
    .type fa,@function
fa:
    .cfi_startproc
    push %rbp
    .cfi_def_cfa_offset 16
    movq gv@GOTPCREL(%rip), %rax
    call fb@PLT
    leaq lstr(%rip), %rdi
    movl $absval, %ecx
    pop %rbp
    .cfi_def_cfa_offset 8
    ret
    .cfi_endproc
    .size fa, .-fa
    .type fb,@function
fb:
    .cfi_startproc
    movq tv@GOTTPOFF(%rip), %rax
    movq %fs:(%rax), %rax
    ret
    .cfi_endproc
    .size fb, .-fb
    .section .text.cmd1,"axG",@progbits,grp1,comdat
    .weak cmd1
cmd1:
    .cfi_startproc
    ret
    .cfi_endproc
    .section .rodata.str1.1,"aMS",@progbits,1
lstr: .string "hello world"
    .string "world"
    .section .rodata.cst8,"aM",@progbits,8
    .quad 0x1122334455667788
    .data
    .globl gv
gv: .quad fa
    .quad lstr
    .section .tdata,"awT",@progbits
    .globl tv
tv: .long 7
    .section .init_array,"aw",@init_array
    .quad fa
    .section .note.GNU-stack,"",@progbits
    .section .note.gnu.property,"a"
    .align 8
    .long 4, 16, 5
    .asciz "GNU"
    .long 0xc0000002, 4, 3, 0
    .set absval, 0x1234
"""

MAIN_S = r"""
    .text
    .globl _start
_start:
    call fa
    call m1f
    call cmd1
    mov $60, %eax
    xor %edi, %edi
    syscall
    .section .text.cmd1,"axG",@progbits,grp1,comdat
    .weak cmd1
cmd1:
    ret
    .section .note.GNU-stack,"",@progbits
"""

B_C = r"""
__thread int tb = 3;
int gb[4] = {1, 2, 3, 4};
static const char *names[] = {"alpha", "beta", "gamma"};
extern int fa(void);
int m2f(int);
int fbb(int i) { return gb[i & 3] + tb + names[i % 3][0]; }
int fcc(int i) { return fbb(i) + m2f(i); }
"""

M1_S = ".text\n.globl m1f\nm1f:\n    call m2f\n    ret\n.section .note.GNU-stack,\"\",@progbits\n"
M2_S = ".text\n.globl m2f\nm2f:\n    lea m2s(%rip), %rax\n    ret\n.section .rodata.str1.1,\"aMS\",@progbits,1\nm2s: .string \"member two\"\n.section .note.GNU-stack,\"\",@progbits\n"
SO_S = ".text\n.globl sof, sog\n.type sof,@function\nsof:\n    ret\n.type sog,@function\nsog:\n    ret\n.data\n.globl sov\n.type sov,@object\n.size sov,8\nsov: .quad 1\n.section .note.GNU-stack,\"\",@progbits\n"
SO_MAP = "V1 { global: sof; sov; local: *; };\nV2 { global: sog; } V1;\n"
MAIND_S = ".text\n.globl _start\n_start:\n    call sof@PLT\n    call sog@PLT\n    movq sov@GOTPCREL(%rip), %rax\n    call fa\n    ret\n.section .note.GNU-stack,\"\",@progbits\n"

SCRIPT_LD = """ENTRY(_start)
SECTIONS
{
    . = 0x600000;
    .text : {
        start_of_text = .;
        *(.text .text.*)
    }
    . = 0x800000;
    . = ALIGN(4);
    .rodata : { *(.rodata .rodata.*) }
    .data : {
        start_of_data = .;
        *(.data .data.*)
        . = ALIGN(512);
        KEEP(*(.init_array))
    }
    .bss : { *(.bss .bss.*) }
}
end_marker = start_of_data + 0x10;
ASSERT(1 + 1 == 2, "arith")
"""
VERS_MAP = """VERS_1.0 {
  global:
    fa; fb;
    extern "C++" { "ns::f(int)"; ns::g* };
  local:
    *;
};
VERS_2.0 { global: gv; t?; } VERS_1.0;
"""
EXPORTS = "{\n  fa;\n  fb*;\n  \"gv\";\n  extern \"C++\" { ns::* };\n};\n"
RSP = "-o out\n'main.o' a.o\n\"b.o\" lib.a --gc-sections\n"


def build_corpus(d):
    os.makedirs(d, exist_ok=True)
    c = {}
    c["a.o"] = lu.asm_obj(d, "a", A_S)
    c["main.o"] = lu.asm_obj(d, "main", MAIN_S)
    c["b.o"] = lu.cc_obj(d, "b", B_C, flags=["-O1", "-fPIC", "-ffunction-sections", "-fdata-sections"])
    m1 = lu.asm_obj(d, "m1", M1_S)
    m2 = lu.asm_obj(d, "m2", M2_S)
    c["lib.a"] = lu.archive(os.path.join(d, "lib.a"), [m1, m2])
    c["thin.a"] = lu.archive(os.path.join(d, "thin.a"), [m1, m2], thin=True)
    so_o = lu.asm_obj(d, "so", SO_S)
    lu.write(os.path.join(d, "so.map"), SO_MAP)
    rc, o, e = lu.run([lu.LD, "-shared", "--hash-style=both", "-soname", "libso.so", "--version-script", os.path.join(d, "so.map"), "-o", os.path.join(d, "libso.so"), so_o])
    if rc != 0:
        raise runner.BuildError("ld -shared failed: " + e)
    c["libso.so"] = os.path.join(d, "libso.so")
    c["maind.o"] = lu.asm_obj(d, "maind", MAIND_S)
    for name, text in (("script.ld", SCRIPT_LD), ("vers.map", VERS_MAP), ("exports.txt", EXPORTS), ("rsp.txt", RSP)):
        c[name] = lu.write(os.path.join(d, name), text)
    return c


# base links: name -> argv (files by corpus name); every link is valid on the unmutated corpus
LINKS = {
    "exe": ["-o", "out", "main.o", "a.o", "b.o", "lib.a"],
    "exe-nogc": ["-o", "out", "--no-gc-sections", "main.o", "a.o", "b.o", "lib.a"],
    "shared": ["-shared", "-o", "out.so", "a.o", "b.o", "lib.a", "--version-script=vers.map"],
    "dyn": ["-o", "out", "maind.o", "a.o", "b.o", "lib.a", "libso.so"],
    "thin": ["-o", "out", "main.o", "a.o", "b.o", "thin.a"],
    "script": ["-o", "out", "main.o", "a.o", "b.o", "lib.a", "-T", "script.ld"],
    "exports": ["-shared", "-o", "out.so", "a.o", "--export-dynamic-symbol-list=exports.txt"],
    "rsp": ["@rsp.txt"],
    "reloc": ["-r", "-o", "out.o", "a.o", "b.o"],
}
# which links exercise a mutated file
USES = {
    "a.o": ["exe", "shared", "reloc", "exe-nogc"], "b.o": ["exe", "shared"], "main.o": ["exe"], "lib.a": ["exe", "exe-nogc"], "thin.a": ["thin"],
    "libso.so": ["dyn"], "script.ld": ["script"], "vers.map": ["shared"], "exports.txt": ["exports"], "rsp.txt": ["rsp"],
}


# ================================================================ ELF field map (ELF64 LE)
EHDR = [("e_type", 16, 2), ("e_machine", 18, 2), ("e_version", 20, 4), ("e_entry", 24, 8), ("e_phoff", 32, 8), ("e_shoff", 40, 8),
        ("e_flags", 48, 4), ("e_ehsize", 52, 2), ("e_phentsize", 54, 2), ("e_phnum", 56, 2), ("e_shentsize", 58, 2), ("e_shnum", 60, 2),
        ("e_shstrndx", 62, 2), ("ei_class", 4, 1), ("ei_data", 5, 1), ("ei_osabi", 7, 1)]
SHDR = [("sh_name", 0, 4), ("sh_type", 4, 4), ("sh_flags", 8, 8), ("sh_addr", 16, 8), ("sh_offset", 24, 8), ("sh_size", 32, 8),
        ("sh_link", 40, 4), ("sh_info", 44, 4), ("sh_addralign", 48, 8), ("sh_entsize", 56, 8)]
SYM = [("st_name", 0, 4), ("st_info", 4, 1), ("st_other", 5, 1), ("st_shndx", 6, 2), ("st_value", 8, 8), ("st_size", 16, 8)]
RELA = [("r_offset", 0, 8), ("r_type", 8, 4), ("r_sym", 12, 4), ("r_addend", 16, 8)]
DYN = [("d_tag", 0, 8), ("d_val", 8, 8)]
PHDR = [("p_type", 0, 4), ("p_flags", 4, 4), ("p_offset", 8, 8), ("p_vaddr", 16, 8), ("p_filesz", 32, 8), ("p_memsz", 40, 8), ("p_align", 48, 8)]


def field_values(size, orig, filesize):
    m = (1 << (8 * size)) - 1
    vals = {0, 1, m, m >> 1, (m >> 1) + 1, (orig + 1) & m, (orig - 1) & m, filesize & m, (filesize + 1) & m, (orig * 2 + 1) & m, (orig ^ 0x10) & m}
    if size >= 4:
        vals |= {0xFFFFFFF0 & m, 0x7FFFFFFF, 0x80000000 & m}
    vals.discard(orig)
    return sorted(vals)


class ElfMap:
    def __init__(self, data):
        self.data = data
        self.ok = data[:4] == b"\x7fELF" and data[4] == 2 and data[5] == 1
        self.secs = []
        if not self.ok:
            return
        self.shoff, = struct.unpack_from("<Q", data, 40)
        self.phoff, = struct.unpack_from("<Q", data, 32)
        self.phentsize, self.phnum, self.shentsize, self.shnum, self.shstrndx = struct.unpack_from("<HHHHH", data, 54)
        for i in range(self.shnum):
            o = self.shoff + i * self.shentsize
            self.secs.append((o,) + struct.unpack_from("<IIQQQQIIQQ", data, o))
        stro = self.secs[self.shstrndx][5] if self.shstrndx < len(self.secs) else 0
        self.names = []
        for s in self.secs:
            st = stro + s[1]
            self.names.append(data[st:data.index(b"\0", st)].decode("latin1"))


def elf_mutations(data, rng, want):
    """-> list of (field_class, description, mutated bytes). Single-field overwrites, content flips, truncations."""
    em = ElfMap(data)
    out = []
    fs = len(data)

    def over(cls, desc, off, size, val):
        b = bytearray(data)
        b[off:off + size] = val.to_bytes(size, "little")
        out.append((cls, f"{desc}={val:#x} (file offset {off:#x}, {size} bytes)", bytes(b)))

    def fields(cls_prefix, desc_prefix, base, table):
        for name, rel, size in table:
            if base + rel + size > fs:
                continue
            orig = int.from_bytes(data[base + rel:base + rel + size], "little")
            for v in field_values(size, orig, fs):
                over(f"{cls_prefix}.{name}", f"{desc_prefix}.{name}", base + rel, size, v)

    if not em.ok:
        return out
    fields("ehdr", "ehdr", 0, EHDR)
    for i in range(em.phnum):
        fields("phdr", f"phdr[{i}]", em.phoff + i * em.phentsize, PHDR)
    for i, s in enumerate(em.secs):
        nm = em.names[i]
        fields("shdr", f"shdr[{i}:{nm}]", s[0], SHDR)
        typ, off, size, ent = s[2], s[5], s[6], s[10]
        if typ == 8 or size == 0 or off + size > fs:
            continue
        if typ in (2, 11):   # SYMTAB / DYNSYM
            for k in range(size // 24):
                fields("sym", f"{nm}[{k}]", off + k * 24, SYM)
        elif typ == 4:       # RELA
            for k in range(size // 24):
                fields("rela", f"{nm}[{k}]", off + k * 24, RELA)
        elif typ == 6:       # DYNAMIC
            for k in range(size // 16):
                fields("dyn", f"{nm}[{k}]", off + k * 16, DYN)
        elif typ == 17:      # GROUP
            for k in range(size // 4):
                fields("group", f"{nm}[{k}]", off + 4 * k, [("word", 0, 4)])
        elif typ in (0x6ffffffd, 0x6ffffffe, 0x6fffffff, 0x6ffffff6, 5) or nm in (".gnu.version", ".gnu.version_d", ".gnu.version_r", ".gnu.hash", ".hash"):
            w = 2 if nm == ".gnu.version" else 4
            for k in range(min(size // w, 40)):
                fields(nm.strip("."), f"{nm}[{k}]", off + w * k, [("word", 0, w)])
        elif typ == 7 or nm.startswith(".note"):
            for k in range(min(size // 4, 16)):
                fields("note", f"{nm}[{k}]", off + 4 * k, [("word", 0, 4)])
        elif nm == ".eh_frame":
            for k in range(size):
                orig = data[off + k]
                for v in (0, 0xff, orig ^ 0x80, (orig + 1) & 0xff):
                    if v != orig:
                        over("eh_frame", f".eh_frame+{k:#x}", off + k, 1, v)
        elif s[3] & 0x10:    # SHF_MERGE
            for k in range(size):
                orig = data[off + k]
                for v in (0, 0xff, 0x41):
                    if v != orig:
                        over("merge", f"{nm}+{k:#x}", off + k, 1, v)
        elif typ == 3:       # STRTAB
            for k in range(0, size, 3):
                orig = data[off + k]
                for v in (0, 0xff):
                    if v != orig:
                        over("strtab", f"{nm}+{k:#x}", off + k, 1, v)
    # truncations at every structural boundary
    cuts = {0, 1, 4, 16, 63, 64, em.shoff, em.shoff + 1, em.shoff + em.shentsize * em.shnum - 1, fs - 1}
    for s in em.secs:
        if s[2] != 8:
            cuts |= {s[5], s[5] + 1, s[5] + s[6] // 2, s[5] + s[6] - 1}
    for c in sorted(x for x in cuts if 0 <= x < fs):
        out.append(("trunc", f"truncated to {c} bytes", data[:c]))
    # random multi-byte flips
    for _ in range(want // 10 + 5):
        b = bytearray(data)
        n = 1 + rng.below(8)
        pos = sorted({rng.below(fs) for _ in range(n)})
        for p in pos:
            b[p] ^= 1 << rng.below(8)
        out.append(("flips", "bit flips at " + ",".join(f"{p:#x}" for p in pos), bytes(b)))
    return out


def archive_mutations(data, rng, want):
    out = []
    fs = len(data)

    def put(cls, desc, off, new):
        b = bytearray(data)
        b[off:off + len(new)] = new
        out.append((cls, desc, bytes(b[:max(fs, off + len(new))])))

    # walk headers
    off = 8
    idx = 0
    while off + 60 <= fs:
        hdr = data[off:off + 60]
        try:
            size = int(hdr[48:58].decode().strip() or "0")
        except ValueError:
            break
        for nm, o, ln, vals in (("ar.name", 0, 16, [b"/" + b" " * 15, b"//" + b" " * 14, b"/99999999999999 ", b"/0" + b" " * 14, b"#1/999" + b" " * 10, b"#1/4" + b" " * 12, b"\xff" * 16, b" " * 16, b"/SYM64/" + b" " * 9]),
                                ("ar.size", 48, 10, [b"0" + b" " * 9, b"9999999999", b"1" + b" " * 9, b" " * 10, b"-1" + b" " * 8, b"18446744073", str(size + 1).encode().ljust(10), str(max(size - 1, 0)).encode().ljust(10), b"\0" * 10, b"0x10" + b" " * 6]),
                                ("ar.term", 58, 2, [b"\0\0", b"\n`", b"  "]),
                                ("ar.date", 16, 12, [b"\xff" * 12]), ("ar.mode", 40, 8, [b"zzzzzzzz"])):
            for v in vals:
                put(nm, f"member[{idx}] {nm}={v!r}", off + o, v)
        body = off + 60
        name = hdr[:16]
        if name.startswith(b"/ ") or name.startswith(b"/SYM64/"):
            # symbol table: count + offsets + names
            for k in range(min(size // 4, 12)):
                for v in (0, 0xffffffff, fs, 8, 7):
                    put("ar.symtab", f"symtab word[{k}]={v:#x}", body + 4 * k, v.to_bytes(4, "big"))
            for k in range(4 * 4, size, 5):
                put("ar.symtab", f"symtab byte[{k}]=0xff", body + k, b"\xff")
        elif name.startswith(b"// "):
            for k in range(size):
                for v in (b"\0", b"\n", b"/", b"\xff"):
                    put("ar.names", f"names[{k}]={v!r}", body + k, v)
        else:
            for k in (0, 1, 4, 5, 16, 18, 40, 41, 58, 60, 62):
                if k < size and body + k < fs:
                    put("ar.member-elf", f"member[{idx}] byte {k} ^= 0xff", body + k, bytes([data[body + k] ^ 0xff]))
        thin_member = data[:8] == b"!<thin>\n" and not (name.startswith(b"/ ") or name.startswith(b"// ") or name.startswith(b"/SYM64/"))
        off = body if thin_member else body + size + (size & 1)
        idx += 1
    for v in (b"!<arch>\r", b"!<thin>\n", b"<bigaf>\n", b"\0" * 8, b"!<arch>\n"[:7] + b"x"):
        put("ar.magic", f"magic={v!r}", 0, v)
    cuts = {0, 1, 7, 8, 9, 67, 68, 69, fs - 1, fs - 2}
    off = 8
    while off + 60 <= fs:
        try:
            size = int(data[off + 48:off + 58].decode().strip() or "0")
        except ValueError:
            break
        cuts |= {off, off + 1, off + 59, off + 60, off + 61, off + 60 + size // 2, off + 60 + size - 1}
        off += 60 + size + (size & 1)
    for c in sorted(x for x in cuts if 0 <= x < fs):
        out.append(("ar.trunc", f"truncated to {c} bytes", data[:c]))
    for _ in range(want // 10 + 5):
        b = bytearray(data)
        pos = sorted({rng.below(fs) for _ in range(1 + rng.below(6))})
        for p in pos:
            b[p] ^= 1 << rng.below(8)
        out.append(("ar.flips", "bit flips at " + ",".join(f"{p:#x}" for p in pos), bytes(b)))
    return out


TEXT_TOKENS = {
    "script.ld": ["SECTIONS", "{", "}", "(", ")", ":", ";", ".", "=", "*", "ALIGN", "KEEP", "ENTRY", "ASSERT", "PROVIDE", "INPUT", "GROUP", "OUTPUT_FORMAT", "/*", "*/",
                  "0x", "0xffffffffffffffff", "99999999999999999999999", ".text", ",", "\"", "+", "-", "/", "%", "<<", ">>", "?", "AT", ">", "PHDRS", "MEMORY", "VERSION",
                  "SIZEOF_HEADERS", "\\", "\0", "\xff", "SORT", "EXCLUDE_FILE", "AS_NEEDED", "ORIGIN", "LENGTH", "!", "~", "&&", "||", "=="],
    "vers.map": ["{", "}", ";", ":", "global", "local", "*", "extern", "\"C++\"", "\"C\"", "\"", "V", "?", "[", "]", "/*", "*/", "#", "\0", "\xff", "::", "(", ")", "~", "\\"],
    "exports.txt": ["{", "}", ";", "*", "extern", "\"C++\"", "\"", "a", "?", "[", "]", "#", "/*", "\0", "\xff", "::", "\\"],
    "rsp.txt": ["'", "\"", "\\", " ", "\n", "\t", "@rsp.txt", "@", "-o", "out", "a.o", "--", "-", "=", "\0", "\xff", "''", "\"\""],
}


def text_mutations(name, text, rng, want):
    out = []
    data = text.encode("latin1")
    toks = TEXT_TOKENS[name]
    for _ in range(want):
        k = rng.below(6)
        b = bytearray(data)
        if k == 0 and b:
            p = rng.below(len(b)); b[p] = rng.choice([0, 0xff, 0x22, 0x27, 0x7b, 0x7d, 0x28, 0x29, 0x3b, 0x2a, 0x5c, 0x0a, 0x80])
            desc = f"byte {p} := {b[p]:#x}"
        elif k == 1 and b:
            p = rng.below(len(b)); b = b[:p]
            desc = f"truncated to {p} bytes"
        elif k == 2 and b:
            p = rng.below(len(b)); q = min(len(b), p + 1 + rng.below(12)); del b[p:q]
            desc = f"deleted [{p},{q})"
        elif k == 3:
            p = rng.below(len(b) + 1); t = rng.choice(toks).encode("latin1"); b[p:p] = t
            desc = f"inserted {t!r} at {p}"
        elif k == 4:
            b = bytearray(" ".join(rng.choice(toks) for _ in range(1 + rng.below(30))).encode("latin1"))
            desc = "token soup"
        else:
            p = rng.below(len(b) + 1); q = rng.below(len(b) + 1); p, q = min(p, q), max(p, q)
            b = b[:q] + b[p:q] * (1 + rng.below(3)) + b[q:]
            desc = f"duplicated [{p},{q})"
        out.append(("text", desc, bytes(b)))
    for special, desc in ((b"", "empty file"), (b"(" * 20000, "20000 open parens"), (b"{" * 20000, "20000 open braces"), (b"\"" + b"a" * 70000, "unterminated 70k string"),
                          (b"/*" * 3000, "nested comment openers"), (b"\xef\xbb\xbf" + data, "UTF-8 BOM"), (data * 200, "200 copies")):
        out.append(("text", desc, special))
    if name == "script.ld":
        # valid scripts whose expressions sit on arithmetic boundaries (64-bit wrap, INT64_MIN / -1, shift counts >= 64, deep nesting)
        big = ["0x8000000000000000", "0xffffffffffffffff", "0x7fffffffffffffff", "(1 << 63)", "(0 - 1)", "0", "1", "64", "65", "127", "0x100000000"]
        ops = ["/", "*", "+", "-", "<<", ">>", "&", "|", "==", "<", "&&", "||"]
        exprs = [f"{a} {op} {b}" for a in big[:5] for op in ops[:6] for b in ("(0 - 1)", "0xffffffffffffffff", "2", "64", "(1 << 63)")]
        exprs += ["ALIGN(0xffffffffffffffff, 0x10000)", "ALIGN(1, 0x8000000000000000)", "MAX(0 - 1, 1 << 63)", "MIN(1 << 63, 0 - 1)",
                  "-(1 << 63)", "~0 / ~0", "(" * 200 + "1" + ")" * 200, "- " * 300 + "1", "!" * 300 + "1"]
        for e in exprs:
            out.append(("text", "boundary expression " + e[:60], (text + f"\nASSERT(({e}) == ({e}), \"boundary\")\n").encode("latin1")))
    return out


def arg_lists(rng, n):
    flags = ["--threads", "--entry", "--soname", "--rpath", "--version-script", "--script", "-T", "--export-dynamic-symbol", "--export-dynamic-symbol-list", "--dynamic-list",
             "--undefined", "--wrap", "--defsym", "--section-start", "--hash-style", "--build-id", "--sort-section", "--retain-symbols-file", "--exclude-libs", "-z", "-l", "-L", "-o", "-m",
             "--sysroot", "-e", "-u", "-y", "--plugin", "--plugin-opt", "-O", "--icf", "--compress-debug-sections", "--image-base", "-Ttext", "--dependency-file", "--thread-count",
             "--unresolved-symbols", "--push-state", "--pop-state", "--start-group", "--end-group", "--as-needed", "--whole-archive", "--no-whole-archive", "-Bstatic", "-Bdynamic",
             "--wild-experiments", "--write-layout", "--time", "--verbose-gc-stats", "--files-per-group", "--nonexistent-flag", "-", "--", "---", "-=", "--=", "@", "@nonexistent", "@."]
    vals = ["", "0", "-1", "18446744073709551615", "18446744073709551616", "99999999999999999999999999", "0x", "0xffffffffffffffffff", "a=b=c", "=", "x=", "=1", ".text=0x", "sha1", "0x" + "f" * 40,
            "none", "md5", "uuid", "fast", "\xff\xfe", "a" * 5000, "%s%s%n", ".", "/", "/dev/null", "/nonexistent/x", "x86_64", "elf_x86_64", "aarch64linux", "max-page-size=0",
            "max-page-size=3", "stack-size=-1", "max-page-size=0xffffffffffffffff", "nocopyreloc", "1,2,3,4,5,6", "name", "all", "*"]
    out = []
    base = ["-o", "out", "main.o", "a.o", "b.o", "lib.a"]
    for _ in range(n):
        k = rng.below(5)
        if k == 0:
            f = rng.choice(flags); v = rng.choice(vals)
            extra = [f"{f}={v}"] if f.startswith("--") and rng.chance(1, 2) else [f, v]
        elif k == 1:
            extra = [rng.choice(flags)]                      # missing operand at the end
            out.append(("args", " ".join(base + extra), base + extra)); continue
        elif k == 2:
            extra = [rng.choice(flags) + rng.choice(vals)]
        elif k == 3:
            extra = [rng.choice(flags), rng.choice(vals), rng.choice(flags), rng.choice(vals)]
        else:
            extra = [rng.choice(vals)]
        pos = rng.below(len(base) + 1)
        argv = base[:pos] + extra + base[pos:] if rng.chance(2, 3) else extra
        out.append(("args", " ".join(a[:60] for a in argv), argv))
    out.append(("args", "(no arguments)", []))
    out.append(("args", "-o only", ["-o"]))
    out.append(("args", "1000 inputs", ["-o", "out"] + ["a.o"] * 1000))
    return out


# ================================================================ running the real binary
PANIC_RE = re.compile(r"panicked at ([^\s:]+):(\d+):\d+:\n([^\n]*)")


def panic_key(m):
    """file + message class (digits dropped, so that unrelated edits of the file do not rename the finding)."""
    f = m.group(1)
    if f.startswith("/rustc/"):
        f = "rust:" + f.split("/library/", 1)[-1]
    msg = re.sub(r"\d+", "N", m.group(3).strip().split(":")[0])
    msg = re.sub(r"[^A-Za-z0-9N<>_ .-]", "", msg)[:48].strip().replace(" ", "-")
    return f"panic@{f}:{msg}"


def classify(rc, stderr):
    """None = acceptable outcome; else a short crash class."""
    m = PANIC_RE.search(stderr)
    if m:
        return panic_key(m)
    if "panicked at" in stderr:
        return "panic@unparsed"
    if rc == -999:
        return "timeout"
    if rc < 0:
        return f"signal{-rc}"
    if rc == 101:
        return "exit101"
    if "overflowed its stack" in stderr or "fatal runtime error" in stderr:
        return "stack-overflow"
    if rc != 0 and not stderr.strip():
        return "silent-failure"
    return None


def run_mutant(job):
    workdir, corpus_dir, link, argv, fname, blob, timeout = job
    os.makedirs(workdir, exist_ok=True)
    for f in os.listdir(corpus_dir):
        src = os.path.join(corpus_dir, f)
        if f != fname and os.path.isfile(src) and (f.endswith((".o", ".a", ".so", ".ld", ".map", ".txt"))):
            os.symlink(src, os.path.join(workdir, f))
    if fname is not None:
        with open(os.path.join(workdir, fname), "wb") as fh:
            fh.write(blob)
    env = {"RUST_BACKTRACE": "0", "WILD_VERIF_SCHED": "", "NO_COLOR": "1"}
    t0 = time.time()
    rc, out, err = lu.link("wild", argv, cwd=workdir, env=env, timeout=timeout)
    dt = time.time() - t0
    cls = classify(rc, err)
    if cls == "timeout" and timeout < 30:
        rc2, out2, err2 = lu.link("wild", argv, cwd=workdir, env=env, timeout=30)
        cls = classify(rc2, err2)
        rc, err = rc2, err2
    shutil.rmtree(workdir, ignore_errors=True)
    return cls, rc, err[:1500], dt


def kind_of(fname):
    if fname is None:
        return "args"
    return {"a.o": "object", "b.o": "object", "main.o": "object", "lib.a": "archive", "thin.a": "thin-archive", "libso.so": "shared-object",
            "script.ld": "linker-script", "vers.map": "version-script", "exports.txt": "export-list", "rsp.txt": "response-file"}[fname]


def _canon_field(cls):
    """field of a mutation without its container: `ar-member.shdr.sh_size` -> `shdr.sh_size`, `ar.flips` -> `flips`"""
    if cls.startswith("ar-member."):
        cls = cls[len("ar-member."):]
    return "flips" if cls.endswith("flips") else cls


def _known_by_site():
    """{(field, site): key} and {site: key} of the open C22 findings whose key names a precise panic site."""
    import json
    by_field, by_site = {}, {}
    try:
        for f in json.load(open(os.path.join(runner.VERIF, "known_findings.json")))["findings"]:
            if f.get("property") == "C22" and f.get("status") == "open" and f["key"].count(":") >= 3:
                _, kind, cls, site = f["key"].split(":", 3)
                if site.startswith("panic@") and kind in ("object", "archive", "thin-archive"):
                    by_field.setdefault((_canon_field(cls), site), f["key"])
                    by_site.setdefault(site, f["key"])
    except (OSError, ValueError, KeyError):
        pass
    return by_field, by_site


def known_key(kind, cls, crash, key):
    """A recorded finding is identified by the corrupted field and the panic site: the same panic reached through another
    container (archive member, thin archive) is the same finding, and random bit flips may hit any recorded field."""
    if kind not in ("object", "archive", "thin-archive") or not crash.startswith("panic@"):
        return key
    by_field, by_site = KNOWN_BY_SITE
    fld = _canon_field(cls)
    if fld == "flips":
        return by_site.get(crash, key)
    return by_field.get((fld, crash), key)


KNOWN_BY_SITE = _known_by_site()


# regression corpus: crashes found (and fixed or recorded) earlier; always run first
def regression_cases(d):
    cases = []
    for rt in ("R_X86_64_GOTPCRELX", "R_X86_64_TLSGD", "R_X86_64_TLSLD", "R_X86_64_GOTPC32_TLSDESC", "R_X86_64_REX_GOTPCRELX", "R_X86_64_CODE_4_GOTPCRELX", "R_X86_64_GOTTPOFF"):
        for off in (0, 1, 2, 3):
            try:
                o = lu.asm_obj(d, f"reg_{rt}_{off}", f".globl _start\n.text\n_start:\n    .reloc {off}, {rt}, foo\n    .long 0\n    .long 0\n    ret\n"
                                                  f".section .tdata,\"awT\",@progbits\n.globl foo\nfoo: .long 1\n")
            except RuntimeError:
                continue
            cases.append(("object", "relax.lookbehind", f".reloc {off}, {rt}, foo at the start of .text", ["-o", "out", os.path.basename(o)], os.path.basename(o), open(o, "rb").read()))
    # relocation offset far beyond the section
    o = lu.asm_obj(d, "reg_roff", ".globl _start\n.text\n_start:\n    movq foo@GOTPCREL(%rip), %rax\n    ret\n.data\n.globl foo\nfoo: .long 1\n")
    data = bytearray(open(o, "rb").read())
    em = ElfMap(bytes(data))
    for i, s in enumerate(em.secs):
        if s[2] == 4 and em.names[i] == ".rela.text":
            for v in (0x1000, 8, 7, 6, 0xFFFFFFFFFFFFFFFF):
                b = bytearray(data)
                struct.pack_into("<Q", b, s[5], v)
                cases.append(("object", "rela.r_offset", f"REX_GOTPCRELX r_offset={v:#x} in an 8-byte .text", ["-o", "out", "reg_roff.o"], "reg_roff.o", bytes(b)))
    # relaxation whose rewrite needs more bytes than the section has (decision looks at fewer bytes than apply writes)
    o = lu.asm_obj(d, "reg_tail", ".globl _start\n.text\n_start:\n    leaq foo@tlsld(%rip), %rdi\n    .byte 0xe8, 0, 0\n.section .tdata,\"awT\",@progbits\n.globl foo\nfoo: .long 1\n")
    cases.append(("object", "relax.apply-tail", "TLSLD lea followed by a call truncated after 3 bytes at the end of .text", ["-o", "out", "reg_tail.o"], "reg_tail.o", open(o, "rb").read()))
    # truncated archive (member size larger than the file)
    lib = open(os.path.join(d, "lib.a"), "rb").read()
    cases.append(("archive", "ar.trunc", "lib.a truncated 7 bytes before its end (inside the last member's data)", LINKS["exe"], "lib.a", lib[:len(lib) - 7]))
    cases.append(("archive", "ar.trunc", "lib.a truncated in the middle of the first member's data", LINKS["exe"], "lib.a", lib[:lib.index(b"\x7fELF") + 100]))
    # deeply nested expression in a linker script (the recursive-descent expression parser has no depth limit)
    nest = "(" * 400 + "1" + ")" * 400
    cases.append(("linker-script", "text", "ASSERT with 400 nested parentheses", LINKS["script"], "script.ld",
                  (SCRIPT_LD + f"\nASSERT(({nest}) == ({nest}), \"nesting\")\n").encode("latin1")))
    # symbol whose st_value makes section address + offset wrap around (fixed: reported as an error)
    data = bytearray(open(os.path.join(d, "a.o"), "rb").read())
    em = ElfMap(bytes(data))
    for i, sc in enumerate(em.secs):
        if sc[2] == 2:      # SHT_SYMTAB
            nsym = sc[6] // 24
            for k in range(1, nsym):
                shndx = struct.unpack_from("<H", data, sc[5] + 24 * k + 6)[0]
                if 0 < shndx < 0xff00 and (data[sc[5] + 24 * k + 4] >> 4) == 1:
                    b = bytearray(data)
                    struct.pack_into("<Q", b, sc[5] + 24 * k + 8, 0xFFFFFFFFFFFFFFFF)
                    cases.append(("object", "sym.st_value", f".symtab[{k}].st_value=0xffffffffffffffff", LINKS["exe-nogc"], "a.o", bytes(b)))
                    break
    # self-referencing response file
    cases.append(("response-file", "text", "@rsp.txt containing @rsp.txt", ["@rsp.txt"], "rsp.txt", b"-o out main.o a.o @rsp.txt\n"))
    return cases


# ================================================================ in-process stream (a)
def small_archives(d, rng):
    out = []
    for i, (names, thin) in enumerate(((["x", "yy.o"], False), (["a_rather_long_member_name.o", "another_quite_long_name_.o", "s"], False), (["t1", "t2_with_a_long_name_here"], True))):
        sub = os.path.join(d, f"sar{i}")
        os.makedirs(sub)
        paths = []
        for j, n in enumerate(names):
            p = os.path.join(sub, n)
            with open(p, "wb") as f:
                f.write(bytes((j * 7 + k) & 0xff for k in range(3 + 2 * j + i)))
            paths.append(n)
        rc, o, e = lu.run(["ar", "rcTS" if thin else "rcS", "s.a"] + paths, cwd=sub)
        out.append(open(os.path.join(sub, "s.a"), "rb").read())
    # with a symbol table (from real objects), BSD-style names built by hand
    def hdr(name, size):
        return name.ljust(16).encode() + b"0".ljust(12) + b"0".ljust(6) + b"0".ljust(6) + b"644".ljust(8) + str(size).encode().ljust(10) + b"`\n"
    out.append(b"!<arch>\n" + hdr("#1/8", 8 + 5) + b"bsdname\0" + b"hello" + b"\n" + hdr("plain/", 2) + b"hi")
    out.append(b"!<arch>\n" + hdr("__.SYMDEF", 4) + b"\0\0\0\0" + hdr("m.o/", 3) + b"abc\n")
    out.append(b"!<arch>\n" + hdr("/", 4) + b"\0\0\0\0" + hdr("/", 4) + b"\0\0\0\0" + hdr("//", 6) + b"long/\n" + hdr("/0", 1) + b"z\n")
    out.append(b"!<arch>\n" + hdr("/SYM64/", 8) + b"\0" * 8 + hdr("//", 10) + b"abcdefgh/\n" + hdr("/0", 0))
    return out


def _wvh(lines, timeout):
    import subprocess
    try:
        p = subprocess.run([runner.WVH], input="\n".join(lines) + "\n", stdout=subprocess.PIPE, stderr=subprocess.DEVNULL, text=True, timeout=timeout)
    except subprocess.TimeoutExpired:
        return None
    out = p.stdout.split("\n")
    if out and out[-1] == "":
        out.pop()
    return out


def eval_with_deadline(ctx, lines):
    """wvh on `lines`; a request that hangs (10 s) or kills the harness is answered `hang` / `crash` and reported."""
    out = _wvh(lines, 30 + len(lines))
    if out is not None and len(out) == len(lines):
        return out
    if len(lines) == 1:
        what = "hang" if out is None else "crash"
        l = lines[0]
        ctx.cov["impl_oracle_failures"] += 1
        txt = bytes.fromhex(l.split()[1]).decode("latin1")[:600] if len(l.split()) > 1 and l.split()[1] != "-" else ""
        ctx.violation(f"c22:inprocess:{l.split()[0]}:{what}", f"in-process parser {what}s: {l.split()[0]} (10 s bound)" if what == "hang" else f"harness died inside {l.split()[0]}",
                      {"request": l[:4000], "text": txt, "how": "echo '<request>' | timeout 10 /verif/.target/wvh/debug/wvh"})
        return [what]
    if out is not None:
        # died at request len(out): everything before is fine
        k = len(out)
        return out + eval_with_deadline(ctx, lines[k:k + 1]) + (eval_with_deadline(ctx, lines[k + 1:]) if k + 1 < len(lines) else [])
    # timeout: find the first hanging request by bisection on prefixes (10 s per probe)
    lo, hi = 0, len(lines)
    while hi - lo > 1:
        mid = (lo + hi) // 2
        if _wvh(lines[lo:mid], 10 + (mid - lo) // 10) is None:
            hi = mid
        else:
            lo = mid
    pre = _wvh(lines[:lo], 30 + lo) if lo else []
    if pre is None or len(pre) != lo:
        pre = ["?"] * lo
    return pre + eval_with_deadline(ctx, lines[lo:lo + 1]) + (eval_with_deadline(ctx, lines[lo + 1:]) if lo + 1 < len(lines) else [])


def inprocess(ctx, d):
    r = ctx.rng
    n = 1 if ctx.quick else 12
    lines = []
    # --- archives
    for base in small_archives(d, r):
        lines.append("mal-archive " + (base.hex() or "-"))
        for cls, desc, blob in archive_mutations(base, r, 20 * n)[::(3 if ctx.quick else 1)]:
            lines.append("mal-archive " + (blob.hex() or "-"))
        for c in range(0, len(base) + 1):
            lines.append("mal-archive " + (base[:c].hex() or "-"))
    # --- response files (ASCII)
    alpha = "ab -o'\"\\\t\n@=/x"
    for _ in range(800 * n):
        s = "".join(alpha[r.below(len(alpha))] for _ in range(r.below(18)))
        lines.append("mal-args " + (s.encode().hex() or "-"))
    for cls, desc, blob in text_mutations("rsp.txt", RSP, r, 200 * n):
        if all(b < 0x80 for b in blob) and len(blob) < 4000:
            lines.append("mal-args " + (blob.hex() or "-"))
    # --- relaxation windows: offsets at and beyond both ends of the section
    rts = [9, 19, 20, 22, 34, 35, 41, 42, 43, 44, 45, 50, 2, 4]
    forms = ["488b0500000000", "48030500000000", "ff1500000000", "ff2500000000", "66488d3d00000000666648e800000000", "488d3d00000000e800000000", "488d0500000000ff10",
             "d5488b0500000000", "62f4fc08010500000000", "4c8b1d00000000", "8b0500000000"]
    for _ in range(700 * n):
        w = bytearray.fromhex(r.choice(forms))
        if r.chance(1, 3):
            w[r.below(len(w))] = r.below(256)
        if r.chance(1, 4):
            w = w[:r.below(len(w) + 1)]
        off = r.choice([0, 1, 2, 3, 4, 5, 6, len(w) - 1, len(w), len(w) + 1, len(w) + 2, 0x1000, r.below(len(w) + 3)])
        if off < 0:
            off = 0
        vf = r.choice([0x8, 0x0, 0x9, 0x1, 0x4, 0xa])
        lines.append(f"x86relax {r.choice(rts)} 0x{vf:x} {r.below(6)} 0x6 {off} -4 {bytes(w).hex() or '-'}")
    for l in lines:
        ctx.count("inprocess-op", l.split()[0])
    dis, impl, model = ctx.differential("malformed-modelled", lines)
    apply_panics = 0
    for l, a, b in zip(lines, impl, model):
        if a.startswith("panic") or a == "crash":
            if l.startswith("x86relax") and a == b:
                apply_panics += 1      # RelaxationKind::apply on a truncated tail: model agrees; recorded below
                continue
            ctx.cov["impl_oracle_failures"] += 1
            ctx.violation("c22:inprocess:" + l.split()[0] + ":" + a, f"in-process parser panicked: {l.split()[0]} -> {a}",
                          {"request": l[:4000], "observed": a, "model": b, "how": "echo '<request>' | /verif/.target/wvh/debug/wvh"})
        if "FUEL-EXHAUSTED" in b:
            ctx.broken.append("archive model ran out of fuel (walk_fuel_sufficient contradicted): " + l[:200])
    ctx.count("inprocess-result", "x86relax apply panics agreed by model", apply_panics)
    if apply_panics:
        ex = next(l for l, a, b in zip(lines, impl, model) if l.startswith("x86relax") and a.startswith("panic") and a == b)
        ctx.violation("relax-apply-truncated-tail", "RelaxationKind::apply indexes past the end of a section that is truncated right after the bytes the decision inspected",
                      {"request": ex, "how": "echo '<request>' | /verif/.target/wvh/debug/wvh"})
    # --- grammars without a Lean model: must not panic
    glines = []
    for name, text, op in (("script.ld", SCRIPT_LD, "mal-ldscript"), ("vers.map", VERS_MAP, "mal-verscript"), ("exports.txt", EXPORTS, "mal-exportlist")):
        glines.append(f"{op} {text.encode().hex()}")
        for cls, desc, blob in text_mutations(name, text, r, 300 * n):
            if len(blob) < 100000:
                glines.append(f"{op} {blob.hex() or '-'}")
    outs = []
    for i in range(0, len(glines), 150):
        outs += eval_with_deadline(ctx, glines[i:i + 150])
    for l, a in zip(glines, outs):
        ctx.note_case(("grammar", l), True)
        ctx.count("inprocess-op", l.split()[0])
        ctx.count("grammar-result", l.split()[0] + ":" + a.split(":")[0])
        if a.startswith("panic"):
            ctx.cov["impl_oracle_failures"] += 1
            ctx.violation("c22:inprocess:" + l.split()[0] + ":" + a, f"text parser panicked in-process: {l.split()[0]} -> {a}",
                          {"request": l[:4000], "text": bytes.fromhex(l.split()[1]).decode("latin1")[:500] if l.split()[1] != "-" else "", "how": "echo '<request>' | /verif/.target/wvh/debug/wvh"})


# ================================================================ run()
def run(ctx):
    d = os.path.join(ctx.scratch, "corpus")
    corpus = build_corpus(d)
    r = ctx.rng
    # sanity: every base link succeeds on the unmutated corpus
    for name, argv in LINKS.items():
        cls, rc, err, dt = run_mutant((os.path.join(ctx.scratch, "w", "base-" + name), d, name, argv, None, None, 60))
        if cls is not None or rc != 0:
            raise runner.BuildError(f"base link {name} fails on the valid corpus: rc={rc} {err[:400]}")
    inprocess(ctx, d)

    budget = 1200 if ctx.quick else 10000
    jobs = []   # (kind, cls, desc, argv, fname, blob)
    for kind, cls, desc, argv, fname, blob in regression_cases(d):
        jobs.append((kind, cls, "regression: " + desc, argv, fname, blob))
    n_reg = len(jobs)
    pools = []
    for fname in ("a.o", "b.o", "main.o", "libso.so"):
        data = open(corpus[fname], "rb").read()
        pools.append((fname, elf_mutations(data, r, budget)))
    for fname in ("lib.a", "thin.a"):
        data = open(corpus[fname], "rb").read()
        muts = archive_mutations(data, r, budget)
        # ELF-level mutations of the first real member inside the archive
        if fname == "lib.a":
            off = data.index(b"\x7fELF")
            size = int(data[off - 12:off - 2].decode().strip())
            for cls, desc, blob in elf_mutations(data[off:off + size], r, budget // 4):
                if len(blob) == size:
                    muts.append(("ar-member." + cls, "member m1.o: " + desc, data[:off] + blob + data[off + size:]))
        pools.append((fname, muts))
    for fname, text in (("script.ld", SCRIPT_LD), ("vers.map", VERS_MAP), ("exports.txt", EXPORTS), ("rsp.txt", RSP)):
        pools.append((fname, text_mutations(fname, text, r, budget // 20)))
    # stratified sample: share of the budget per pool, uniform over field classes first
    shares = {"a.o": 0.30, "b.o": 0.12, "main.o": 0.06, "libso.so": 0.16, "lib.a": 0.14, "thin.a": 0.04, "script.ld": 0.05, "vers.map": 0.04, "exports.txt": 0.03, "rsp.txt": 0.03}
    for fname, muts in pools:
        want = int(budget * shares[fname])
        bycls = {}
        for m in muts:
            bycls.setdefault(m[0], []).append(m)
        picked = []
        classes = sorted(bycls)
        for c in classes:
            bycls[c] = r.shuffle(bycls[c])
        i = 0
        while len(picked) < want and any(bycls.values()):
            c = classes[i % len(classes)]
            if bycls[c]:
                picked.append(bycls[c].pop())
            i += 1
        for cls, desc, blob in picked:
            links = USES[fname]
            link = links[r.below(len(links))] if not cls.startswith("regression") else links[0]
            jobs.append((kind_of(fname), cls, desc, LINKS[link], fname, blob))
            ctx.count("mutant", f"{kind_of(fname)}:{cls.split('.')[0] if fname.endswith(('.o', '.so')) else cls}")
    for cls, desc, argv in arg_lists(r, int(budget * 0.04)):
        jobs.append(("args", cls, desc, argv, None, None))
        ctx.count("mutant", "args")

    work = os.path.join(ctx.scratch, "w")
    packed = [(os.path.join(work, f"m{i}"), d, None, argv, fname, blob, TIMEOUT) for i, (kind, cls, desc, argv, fname, blob) in enumerate(jobs)]
    with concurrent.futures.ThreadPoolExecutor(max_workers=PAR) as ex:
        results = list(ex.map(run_mutant, packed))
    crashes = {}
    n_err = n_ok = 0
    slow = 0.0
    for (kind, cls, desc, argv, fname, blob), (crash, rc, err, dt) in zip(jobs, results):
        ctx.note_case((kind, cls, desc, tuple(argv)), True)
        slow = max(slow, dt)
        if crash is None:
            if rc == 0:
                n_ok += 1
            else:
                n_err += 1
            continue
        key = f"c22:{kind}:{cls}:{crash}"
        key = known_key(kind, cls, crash, key)
        crashes.setdefault(key, []).append((desc, argv, fname, blob, rc, err))
    ctx.count("outcome", "linked", n_ok)
    ctx.count("outcome", "clean-error", n_err)
    ctx.count("outcome", "crash", sum(len(v) for v in crashes.values()))
    ctx.cov["max_link_seconds"] = round(slow, 2)
    ctx.sample({"stream": "real-binary", "mutants": len(jobs), "regressions": n_reg, "linked": n_ok, "clean_error": n_err, "crash_keys": sorted(crashes)[:20]})
    rdir = None
    for key, lst in sorted(crashes.items()):
        # smallest mutation: prefer single-field overwrites (shortest description), smallest file
        lst.sort(key=lambda x: (x[0].count(","), len(x[3] or b""), x[0]))
        desc, argv, fname, blob, rc, err = lst[0]
        ctx.cov["impl_oracle_failures"] += 1
        saved = None
        if blob is not None:
            rdir = rdir or ctx.replay_dir()
            saved = os.path.join(rdir, hashlib.sha256(key.encode()).hexdigest()[:10] + "-" + fname)
            with open(saved, "wb") as f:
                f.write(blob)
        ctx.violation(key, f"wild crashes on malformed input ({key}): {desc}",
                      {"input_kind": key.split(":")[1], "mutation": desc, "mutated_file": fname, "saved_as": saved, "argv": ["wild"] + argv,
                       "how": "corpus from vlib/props/c22.py build_corpus(); replace <mutated_file> by the saved file and run argv in that directory",
                       "rc": rc, "stderr": err[:1200], "same_key_count": len(lst)})
    if ctx.broken:
        ctx.violation("c22:broken:" + hashlib.sha256("|".join(ctx.broken).encode()).hexdigest()[:10],
                      "C22 proof obligation or model/code correspondence no longer checks", {"broken": ctx.broken[:10]}, found_input=False)
