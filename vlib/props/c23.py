"""C23 - Size accounting never fails on valid input."""
import os
import re
import shutil

from .. import linkutil as lu
from .. import runner

NEEDS_WILD = True
LEAN_MODULES = ["WildModel.Props.C23"]
THEOREMS = [
    "Wild.Alloc.alloc_eq_consume_resolution",
    "Wild.Alloc.alloc_eq_consume_site",
    "Wild.Alloc.no_tables_trivial",
    "Wild.Alloc.alloc_table_consistent",
    "Wild.Alloc.alloc_table_matches_model",
    "Wild.Alloc.alloc_table_complete",
    "Wild.Alloc.alloc_ne_consume_old_witness",
    "Wild.Alloc.alloc_eq_consume_old_partial",
    "Wild.Relr.alloc_eq_write",
    "Wild.Relr.alloc_ne_write_old_witness",
]
LEVEL = "proof"
TECHNIQUE = ("Lean 4 theorems over two independent executable models (allocate_resolution vs process_resolution; process_relocation vs "
             "write_address_relocation) on their whole finite domain + regenerated table from the running code (T1) + exhaustive correspondence "
             "model vs code (81920 rows) + whole-link sweep over resolution kinds x output kinds x options, GNU ld as acceptance oracle")
TRUSTED = [
    "hand-written model lean/WildModel/Model/Alloc.lean; tied EXHAUSTIVELY to the code: every combination of the 11 flag bits either side reads x 5 output "
    "kinds x relr x value-zero x has-dynsym-index is run through the real Elf::allocate_resolution and the real TableWriter::process_resolution "
    "(hook libwild::verif_api::alloc, dry run against scratch buffers) and compared with the model (correspondence `alloc-row`)",
    "Gen/AllocTable.lean is regenerated on every run from those real functions for all rows inside the model's `Valid` domain; "
    "`alloc_table_consistent` is re-proved by the kernel on the regenerated rows",
    "the consumption side of GOT_TLS_OFFSET resolutions cannot be dry-run (process_got_tls_offset needs an ElfLayout): for those rows the tie is the "
    "hand model + the whole-link sweep (TLS initial-exec in all five output kinds)",
    "`Valid` (which flag combinations layout can produce) is an assumption stated clause by clause in Model/Alloc.lean; it is checked against the "
    "flag combinations that real links produce (hook note_resolution, WILD_VERIF_ALLOC_DUMP): every observed combination must be inside `Valid`",
    "the five flag bits neither side reads (DOWNGRADE_TO_LOCAL, FUNCTION, DIRECT, COPY_RELOCATION, HAS_RANGE_LIMITED_REL) are checked to be "
    "irrelevant by running the real functions with them set (sampled)",
    "tables other than GOT/.plt.got/.rela.plt/.rela.dyn/.relr.dyn (symtab/strtab, dynsym/dynstr, hash tables, eh_frame(_hdr), version tables, "
    ".dynamic, build-id) are covered by the whole-link sweep only, not by a theorem",
    "gcc 12, as, GNU ld 2.40 (acceptance oracle and to build the shared library)",
]
RULE = ("(1) exhaustive: all 2^11 x 5 x 2 x 2 x 2 resolution rows; non-trivial = row inside `Valid`; (2) sweep: C/asm programs using every resolution "
        "kind (direct/PLT calls, GOT loads, address-taken functions, copy relocations, weak undefined, hidden/protected, IFUNC, TLS GD/LD/IE/LE/"
        "TLSDESC incl. undefined weak TLS, alignment-1 pointer tables at odd addresses) x {static, static-PIE, PIE, dynamic non-PIE, shared} x "
        "single options and random option pairs; every link counts, distinct by command line")
ASSUMPTIONS = ["x86-64; one symbol resolution at a time (per-symbol counts add up because allocation and consumption are both per-symbol sums)"]

DL = "/lib64/ld-linux-x86-64.so.2"
REL_BITS = [1, 2, 4, 8, 128, 256, 512, 1024, 2048, 4096, 16384]
GEN = os.path.join(runner.LEAN_DIR, "WildModel", "Gen", "AllocTable.lean")
ERR_RE = re.compile(r"Insufficient|Allocated too much|allocation", re.I)


# ---------------------------------------------------------------- T1 / exhaustive T3

def domain_lines():
    lines = []
    for m in range(1 << len(REL_BITS)):
        f = sum(b for i, b in enumerate(REL_BITS) if m >> i & 1)
        for k in range(5):
            for r in (0, 1):
                for raw in ("0", "0x50"):
                    for di in (0, 1):
                        lines.append(f"alloc-row {f} {k} {r} {raw} {di}")
    return lines


def run_exe(exe, lines):
    import subprocess
    p = subprocess.run([exe], input="\n".join(lines) + "\n", stdout=subprocess.PIPE, stderr=subprocess.PIPE, text=True, timeout=1800)
    out = p.stdout.split("\n")
    if out and out[-1] == "":
        out.pop()
    return out


_cache = {}


def both_sides(ctx):
    if "rows" not in _cache:
        lines = domain_lines()
        impl = run_exe(runner.WVH, lines)
        if len(impl) != len(lines):
            raise runner.BuildError("wvh did not answer every alloc-row request")
        _cache["rows"] = (lines, impl)
    return _cache["rows"]


def regenerate(ctx):
    """Gen/AllocTable.lean: both sides of the real code for every row of the model's Valid domain."""
    rc, out = runner.lake_build(["wmdriver"])
    if rc != 0:
        raise runner.BuildError("lake build wmdriver failed:\n" + out[-2000:])
    lines, impl = both_sides(ctx)
    model = run_exe(runner.DRIVER, lines)
    if len(model) != len(lines):
        raise runner.BuildError("wmdriver did not answer every alloc-row request")
    _cache["model"] = model
    rows = []
    for l, a, m in zip(lines, impl, model):
        if not m.endswith("valid=1"):
            continue
        t = l.split()
        flags, kind, relr, raw, di = int(t[1]), int(t[2]), t[3] == "1", t[4], t[5] == "1"
        if a.startswith("panic"):
            alloc, code, cons, vok = [9] * 6, 3, [], False
        else:
            A, C, V = a.split()
            alloc = [int(x) for x in A[2:].split(",")]
            if C == "C=err:needs-layout":
                code, cons = 1, []
            elif C.startswith("C=err"):
                code, cons = 2, []
            else:
                code, cons = 0, [int(x) for x in C[2:].split(",")]
            vok = V == "V=ok"
        b = lambda x: "true" if x else "false"
        rows.append(f"  ⟨{flags}, {kind}, {b(relr)}, {b(di)}, {b(raw == '0')}, {alloc}, {code}, {cons}, {b(vok)}⟩")
    text = ("/- REGENERATED by vlib/props/c23.py on every run from /repo's working tree (wvh alloc-row = libwild::verif_api::alloc):\n"
            "   for every resolution in the model's `Valid` domain, what the real `Elf::allocate_resolution` reserves and what the real\n"
            "   `TableWriter::process_resolution` takes in a dry run. consumeCode: 0 ok, 1 needs a layout (GOT_TLS_OFFSET), 2 refused, 3 panic.\n"
            "   Never edit by hand. -/\n"
            "namespace Wild.Alloc.Gen\n\n"
            "structure AllocRow where\n  flags : Nat\n  kind : Nat\n  relr : Bool\n  dynIdx : Bool\n  rawZero : Bool\n  alloc : List Nat\n"
            "  consumeCode : Nat\n  consume : List Nat\n  verifyOk : Bool\n\n"
            "def allocTable : List AllocRow := [\n" + ",\n".join(rows) + "\n]\n\nend Wild.Alloc.Gen\n")
    os.makedirs(os.path.dirname(GEN), exist_ok=True)
    old = open(GEN).read() if os.path.exists(GEN) else None
    if old != text:
        with open(GEN, "w") as f:
            f.write(text)
    ctx.cov["gen_rows"] = len(rows)


def canon_pair(impl_line, model_line):
    """Comparable strings: allocation always; consumption where the real writer can be dry-run."""
    ma, mc, mv = model_line.split()
    if impl_line.startswith("panic"):
        return "panic", ("panic" if mv == "valid=0" else ma + " " + mc)  # a panic is tolerated only outside Valid
    a, c, v = impl_line.split()
    if c == "C=err:needs-layout":
        return a, ma
    return a + " " + c, ma + " " + mc


def exhaustive(ctx):
    lines, impl = both_sides(ctx)
    model = _cache.get("model") or run_exe(runner.DRIVER, lines)
    ia, mo = [], []
    for a, m in zip(impl, model):
        x, y = canon_pair(a, m)
        ia.append(x)
        mo.append(y)
    valid = {l for l, m in zip(lines, model) if m.endswith("valid=1")}
    ctx.differential("alloc-row(exhaustive: real allocate_resolution / process_resolution vs model)", lines, impl_out=ia, model_out=mo,
                     nontrivial=lambda l, a, b: l in valid)
    ctx.cov["exhaustive"] = True
    ctx.count("rows", "total", len(lines))
    ctx.count("rows", "valid", len(valid))
    ctx.count("rows", "valid-dry-run", sum(1 for l, a in zip(lines, impl) if l in valid and "needs-layout" not in a))
    # the property on the real code, row by row, without the model: wild's own verify must accept every Valid row it can run
    for l, a in zip(lines, impl):
        if l in valid and "needs-layout" not in a and not a.endswith("V=ok"):
            ctx.cov["impl_oracle_failures"] += 1
            ctx.violation("row:" + a, f"allocation and consumption differ for a resolution layout can produce: {l} -> {a}",
                          {"request": l, "observed": a, "how": "echo '<request>' | /verif/.target/wvh/debug/wvh  (A=alloc C=consumed V=verify_resolution_allocation)"})
    # bits neither side reads
    r = ctx.rng
    extra = [16, 32, 64, 8192, 32768]
    probe, base = [], []
    for _ in range(400 if ctx.quick else 4000):
        i = r.below(len(lines))
        t = lines[i].split()
        e = sum(b for b in extra if r.chance(1, 2)) or 64
        probe.append(f"alloc-row {int(t[1]) | e} {t[2]} {t[3]} {t[4]} {t[5]}")
        base.append(impl[i])
    got = run_exe(runner.WVH, probe)
    for p, g, b0 in zip(probe, got, base):
        ctx.note_case(("irrelevant-bits", p))
        if g != b0:
            ctx.broken.append(f"a flag bit outside the modelled 11 changes the accounting: {p} -> {g}, without it {b0}")
            break


# ---------------------------------------------------------------- whole-link sweep

LIB_C = r"""
int ext_var = 7;
int ext_arr[4] = {1, 2, 3, 4};
__thread int ext_tls = 9;
int ext_func(int x) { return x + ext_var; }
int ext_func2(int x) { return x * 2; }
__attribute__((visibility("protected"))) int prot_func(int x) { return x - 1; }
"""

MAIN_C = r"""
#ifndef NO_EXT
extern int ext_var, ext_arr[4];
extern int ext_func(int), ext_func2(int);
#endif
extern int weak_und(int) __attribute__((weak));
extern int weak_var __attribute__((weak));
__attribute__((visibility("hidden"))) int hid_func(int x) { return x + 1; }
__attribute__((visibility("protected"))) int prot_local(int x) { return x + 2; }
static int stat_func(int x) { return x + 3; }
int glob_func(int x) { return x + 4; }
int glob_var = 5;
static int stat_var = 6;
int (*fptr_tab[])(int) = {hid_func, prot_local, stat_func, glob_func
#ifndef NO_EXT
  , ext_func
#endif
};
int *vptr_tab[] = {&glob_var, &stat_var
#ifndef NO_EXT
  , &ext_var, &ext_arr[2]
#endif
};
int ifn_user(int);
int tls_user(int);
int run(int x) {
  int s = hid_func(x) + prot_local(x) + stat_func(x) + glob_func(x) + glob_var + stat_var;
  if (weak_und) s += weak_und(x);
  if (&weak_var) s += weak_var;
#ifndef NO_EXT
  s += ext_func(x) + ext_var + ext_arr[1];
  int (*p)(int) = ext_func2;
  s += p(x);
#endif
  for (unsigned i = 0; i < sizeof fptr_tab / sizeof *fptr_tab; i++) s += fptr_tab[i](x);
  for (unsigned i = 0; i < sizeof vptr_tab / sizeof *vptr_tab; i++) s += *vptr_tab[i];
  return s + ifn_user(x) + tls_user(x);
}
void _start(void) {
  int r = run(1);
  __asm__ volatile("syscall" : : "a"(60), "D"(r & 127) : "rcx", "r11", "memory");
  for (;;) {}
}
"""

IFUNC_C = r"""
static int impl_a(int x) { return x + 10; }
static int impl_b(int x) { return x + 20; }
static int (*resolve_ifn(void))(int) { return impl_a; }
int ifn(int) __attribute__((ifunc("resolve_ifn")));
static int (*resolve_hid(void))(int) { return impl_b; }
__attribute__((visibility("hidden"))) int ifn_hid(int) __attribute__((ifunc("resolve_hid")));
int (*ifn_ptr)(int) = ifn;
int (*ifn_hid_ptr)(int) = ifn_hid;
int ifn_user(int x) {
  int (*volatile p)(int) = ifn;
  int (*volatile q)(int) = ifn_hid;
  return ifn(x) + ifn_hid(x) + p(x) + q(x) + ifn_ptr(x) + ifn_hid_ptr(x) + (p == ifn_ptr);
}
"""

TLS_C = r"""
#define TM(m) __attribute__((tls_model(m)))
__thread int t_gd TM("global-dynamic") = 1;
static __thread int t_ld1 TM("local-dynamic") = 2;
static __thread int t_ld2 TM("local-dynamic");
__thread int t_ie TM("initial-exec") = 3;
__attribute__((visibility("hidden"))) __thread int t_ie_hid TM("initial-exec") = 4;
__thread int t_multi = 5;
extern __thread int t_weak_hid __attribute__((weak, visibility("hidden"))) TM("initial-exec");
extern __thread int t_weak __attribute__((weak)) TM("initial-exec");
#ifndef SHARED
static __thread int t_le TM("local-exec") = 6;
#endif
#ifndef NO_EXT
extern __thread int ext_tls;
extern __thread int ext_tls_ie TM("initial-exec") __attribute__((weak));
#endif
int tlsdesc_user(int);
int *t_multi_addr(void);
int tls_user(int x) {
  int s = t_gd + t_ld1 + t_ld2 + t_ie + t_ie_hid + t_multi + *t_multi_addr();
  if (&t_weak_hid) s += 1;
  if (&t_weak) s += 1;
#ifndef SHARED
  s += t_le;
#endif
#ifndef NO_EXT
  s += ext_tls;
#endif
  return s + x + tlsdesc_user(x);
}
"""

TLSDESC_C = r"""
extern __thread int t_multi;
__thread int t_desc = 8;
static __thread int t_desc_loc = 9;
int *t_multi_addr(void) { return &t_multi; }
int tlsdesc_user(int x) { return t_desc + t_desc_loc + t_multi + x; }
"""

# t_multi additionally through the initial-exec GOT form (one symbol, GD + TLSDESC + IE at once)
TLSIE_C = r"""
extern __thread int t_multi __attribute__((tls_model("initial-exec")));
extern __thread int t_gd __attribute__((tls_model("initial-exec")));
int tls_ie_extra(void) { return t_multi + t_gd; }
"""

# Freestanding executables have no libc: a local definition for the (un-relaxed, --no-relax) general-dynamic calls.
TGA_C = r"""
void *__tls_get_addr(void *p) { return p; }
"""

ODD_S = r"""
    .section .data.c23a,"aw",@progbits
    .byte 7
    .section .data.c23b,"aw",@progbits
c23_tab:
    .quad c23_tgt
    .byte 1
    .quad c23_tgt+1
    .section .c23own,"aw",@progbits
    .byte 1, 2, 3
    .quad c23_tgt
    .data
c23_tgt: .byte 1, 2
"""

# Degenerate but compiler-producible inputs: functions that are only __builtin_unreachable() (zero-size .text.* sections that
# still carry an FDE), an empty function, a zero-size data object; all reachable through a pointer table.
EDGE_C = r"""
void unreach1(void) { __builtin_unreachable(); }
void unreach2(int x) { (void)x; __builtin_unreachable(); }
void empty_fn(void) {}
char zero_size_obj[0] __attribute__((section(".data.zero")));
void (*edge_tab[])(void) = { unreach1, (void (*)(void))unreach2, empty_fn };
char *edge_zero = zero_size_obj;
"""

# References to linker-defined symbols: they take symbol-table (and, in PIC outputs, dynamic-relocation) space like any other
LDSYMS_C = r"""
extern char _end[], _etext[], _edata[];
char *c23_ld_syms[] = { _end, _etext, _edata };
"""

KINDS = ["static", "static-pie", "pie", "dyn-nonpie", "shared"]
SINGLE_OPTS = [[], ["-z", "pack-relative-relocs"], ["--hash-style=gnu"], ["--hash-style=sysv"], ["--hash-style=both"], ["--build-id=none"],
               ["--build-id=fast"], ["--build-id=sha1"], ["--build-id=uuid"], ["--eh-frame-hdr"], ["--no-eh-frame-hdr"], ["--strip-all"],
               ["--strip-debug"], ["--no-relax"], ["--retain-symbols-file=retain.txt"], ["--retain-symbols-file=retain.txt", "--hash-style=both"], ["--got-plt-syms"], ["--strip-all", "--got-plt-syms"], ["-z", "now"], ["--gc-sections"], ["--no-gc-sections"]]


def build_objects(d):
    """objs[flavor] = list of objects; flavors: nopic (static, dyn-nonpie), pie, pic."""
    lib_o = lu.cc_obj(d, "lib", LIB_C, flags=["-fPIC", "-O1", "-g"])
    lib = os.path.join(d, "libext.so")
    rc, o, e = lu.link("ld", ["-shared", "-o", lib, lib_o])
    if rc != 0:
        raise RuntimeError("cannot build the helper shared library: " + e)
    common = ["-O1", "-g", "-ffreestanding", "-fno-stack-protector", "-fno-builtin", "-fcf-protection=none"]
    objs = {}
    for flavor, cf, ext in (("nopic-noext", ["-fno-pic", "-DNO_EXT"], False), ("pie-noext", ["-fPIE", "-DNO_EXT"], False),
                            ("nopic", ["-fno-pic"], True), ("pie", ["-fPIE"], True), ("pic", ["-fPIC", "-DSHARED"], True)):
        sub = os.path.join(d, flavor)
        os.makedirs(sub, exist_ok=True)
        tls_flags = [x for x in cf if x.startswith("-D")] + ["-fPIC"]
        main_c = "extern void (*edge_tab[])(void); extern char *edge_zero;\n" + MAIN_C.replace(
            "return s + ifn_user(x) + tls_user(x);", "s += (edge_tab[2] != 0) + (edge_zero != 0) - 2; return s + ifn_user(x) + tls_user(x);")
        o_ = [lu.cc_obj(sub, "main", main_c, flags=common + cf),
              lu.cc_obj(sub, "edge", EDGE_C, flags=[x for x in common if x != "-O1"] + cf + ["-O2", "-ffunction-sections", "-fdata-sections",
                                                                                         "-fasynchronous-unwind-tables"]),
              lu.cc_obj(sub, "ifunc", IFUNC_C, flags=common + cf),
              lu.cc_obj(sub, "tls", TLS_C, flags=common + tls_flags),
              lu.cc_obj(sub, "tlsdesc", TLSDESC_C, flags=common + tls_flags + ["-mtls-dialect=gnu2"]),
              lu.cc_obj(sub, "tlsie", TLSIE_C, flags=common + tls_flags),
              lu.cc_obj(sub, "ldsyms", LDSYMS_C, flags=common + cf),
              lu.asm_obj(sub, "odd", ODD_S)]
        if "-DSHARED" not in cf:
            o_.append(lu.cc_obj(sub, "tga", TGA_C, flags=common + cf))
        objs[flavor] = o_
    return objs, lib


def link_line(kind, opts, objs, lib, out):
    if kind == "static":
        return ["-o", out] + opts + objs["nopic-noext"]
    if kind == "static-pie":
        return ["--static", "-pie", "--no-dynamic-linker", "-o", out] + opts + objs["pie-noext"]
    if kind == "pie":
        return ["-pie", "-dynamic-linker", DL, "-o", out] + opts + objs["pie"] + [lib]
    if kind == "dyn-nonpie":
        return ["-dynamic-linker", DL, "-o", out] + opts + objs["nopic"] + [lib]
    return ["-shared", "-o", out] + opts + objs["pic"] + [lib]


def for_ld(line):
    return [("-static" if a == "--static" else a) for a in line if a != "--got-plt-syms"]


def sweep(ctx):
    r = ctx.rng
    d = os.path.join(ctx.scratch, "sweep")
    os.makedirs(d, exist_ok=True)
    objs, lib = build_objects(d)
    lu.write(os.path.join(d, "retain.txt"), "c23_tgt\nedge_tab\nunreach1\n")
    combos = [(k, o) for k in KINDS for o in SINGLE_OPTS]
    nrand = 12 if ctx.quick else 400
    for _ in range(nrand):
        k = r.choice(KINDS)
        o = []
        for s in r.shuffle(SINGLE_OPTS[1:])[: r.range(2, 4)]:
            o += s
        combos.append((k, o))
    if ctx.quick:
        # all single options for PIE and shared (where most dynamic tables exist), a deterministic third of them for the other kinds
        combos = [c for i, c in enumerate(combos) if c[0] in ("pie", "shared") or i % 3 == 0 or i >= len(KINDS) * len(SINGLE_OPTS)]
    dump = os.path.join(d, "alloc-dump.txt")
    observed = set()
    needs_layout_seen = None
    for i, (kind, opts) in enumerate(combos):
        out = os.path.join(d, f"out{i}")
        line = link_line(kind, opts, objs, lib, out)
        ctx.count("kind", kind)
        ctx.count("option", " ".join(opts) or "(default)")
        ctx.note_case(("link", kind, tuple(opts)))
        env = {"WILD_VERIFY_ALLOCATIONS": "1", "WILD_VERIF_ALLOC_DUMP": dump}
        rc, o, err = lu.link("wild", line, cwd=d, env=env)
        if rc != 0 and "Layout must be present" in err:
            # wild's own self-check cannot handle GOT_TLS_OFFSET (known finding); judge the link without it
            needs_layout_seen = needs_layout_seen or {"link_line": "WILD_VERIFY_ALLOCATIONS=1 wild " + " ".join(line), "stderr": err[-400:]}
            rc, o, err = lu.link("wild", line, cwd=d, env={"WILD_VERIF_ALLOC_DUMP": dump})
        ctx.count("wild", "ok" if rc == 0 else "failed")
        if os.path.exists(dump):
            kidx = {"static": 0, "static-pie": 1, "dyn-nonpie": 2, "pie": 3, "shared": 4}[kind]
            for ln in open(dump):
                t = ln.split()
                if len(t) == 2 and int(t[1]) == kidx:
                    observed.add((int(t[0]), kidx, "pack-relative-relocs" in " ".join(opts)))
            os.unlink(dump)
        if rc != 0:
            grc, go, gerr = lu.link("ld", for_ld(line), cwd=d)
            ctx.count("oracle", "ld-ok" if grc == 0 else "ld-rejects")
            if grc == 0:
                ctx.cov["impl_oracle_failures"] += 1
                acct = bool(ERR_RE.search(err))
                msg = [l for l in err.strip().split("\n") if l.strip()][-1][:160]
                keep = os.path.join(ctx.replay_dir(), "c23-sweep")
                if not os.path.exists(keep):
                    shutil.copytree(d, keep, dirs_exist_ok=True, ignore=shutil.ignore_patterns("out*"))
                key = ("accounting:" if acct else "link-fails:") + kind + ":" + re.sub(r"0x[0-9a-f]+|\d+", "N", msg)[:80]
                ctx.violation(key, ("size accounting error" if acct else "link failure") + f" on an input GNU ld links ({kind} {' '.join(opts)}): {msg}",
                              {"link_line": "WILD_VERIFY_ALLOCATIONS=1 /verif/.target/wild/debug/wild " + " ".join(line), "dir": keep, "stderr": err[-800:]})
        for p in (out,):
            if os.path.exists(p):
                os.unlink(p)
    if needs_layout_seen:
        ctx.violation("verify-allocations:tls-offset-needs-layout",
                      "WILD_VERIFY_ALLOCATIONS=1 (which wild's own allocation errors recommend) fails every link that has an initial-exec TLS GOT entry: "
                      "verify_resolution_allocation passes no layout and process_got_tls_offset needs one ('Layout must be present')", needs_layout_seen)
    # observed resolutions must lie inside the domain the theorem covers
    reqs = []
    for (f, k, relr) in sorted(observed):
        fm = sum(b for b in REL_BITS if f & b)
        if not fm & (128 | 256 | 512 | 1024 | 2048 | 16384):
            ctx.count("observed-resolutions", "no-table-entries (theorem no_tables_trivial)")
            continue
        dyn = 1 if (fm & 2 or fm & 4096) else 0
        raw = "0" if fm & 1 else "0x50"
        reqs.append(f"alloc-row {fm} {k} {1 if relr else 0} {raw} {dyn}")
    reqs = sorted(set(reqs))
    if reqs:
        ans = ctx.model_eval(reqs)
        outside = [q for q, a in zip(reqs, ans) if not a.endswith("valid=1")]
        ctx.count("observed-resolutions", "distinct", len(reqs))
        ctx.count("observed-resolutions", "outside-Valid", len(outside))
        ctx.cov["observed_resolution_rows"] = len(reqs)
        if outside:
            ctx.broken.append("real links produce resolutions outside the model's Valid domain (the theorem does not cover them): " + "; ".join(outside[:12]))
    shutil.rmtree(d, ignore_errors=True)


def run(ctx):
    exhaustive(ctx)
    sweep(ctx)
