"""C24 - Save-dir bundles replay to an identical output."""
import os
import shutil
import subprocess

from vlib import runner

LEAN_MODULES = ["WildModel.Props.C24"]
THEOREMS = [
    "Wild.C24.run_with_roundtrip",
    "Wild.C24.run_with_roundtrip_args",
    "Wild.C24.classify_plain",
    "Wild.C24.rsp_roundtrip_nosubst",
    "Wild.C24.C24_old_counterexample",
    "Wild.C24.old_rendering_space_in_copied_path_witness",
    "Wild.C24.old_rendering_single_quote_witness",
    "Wild.C24.old_rendering_double_quote_witness",
    "Wild.C24.old_rendering_semicolon_witness",
    "Wild.C24.old_rendering_glob_witness",
    "Wild.C24.old_rendering_newline_witness",
    "Wild.C24.old_rendering_empty_arg_witness",
    "Wild.C24.old_rendering_var_space_witness",
    "Wild.C24.old_rsp_space_witness",
]
LEVEL = "proof"
NEEDS_WILD = True
TRUSTED = [
    "hand-written model lean/WildModel/Model/ShQuote.lean of save_dir.rs (write_args control flow, write_arg, write_shell_quoted, "
    "write_at_file_escaped, write_copied_file_arg, separators, to_output_relative_path . std::path::absolute) and of args.rs "
    "arguments_from_string, tied by the differential correspondences c24-emit / c24-rsp / c24-tok on generated argument lists against the "
    "real code running on a real directory tree",
    "lean/WildModel/Model/ShSplit.lean = statement of POSIX/bash word splitting for the emitted subset; validated on every run against "
    "/bin/bash 5.2 (every text the model splits must be split identically by bash)",
    "file-system facts (which argument names an existing / copied file) enter the model as per-argument flags computed by the check from the "
    "real directory tree; file copying itself (copy_file, symlinks, make_linker_script_relative) is covered only by the end-to-end replays",
    "replay output = original output additionally relies on wild being deterministic for identical inputs (C06)",
]
RULE = ("argument lists of 1-7 arguments over a metacharacter-rich alphabet (quotes, white space incl. newline, $ \\ ; & | < > ( ) * ? [ ] { } ~ # ! ` "
        "and non-ASCII), mixing plain text, existing+copied / existing-uncopied / missing files (relative, ./, //, ../, absolute), --opt=<file>, "
        "-o X / -oX, -L X / -LX, @response-file and the empty argument, in working directories with spaces; all cases non-trivial; distinct by "
        "request text. Oracle independent of the model: real bash splits the text produced by the real code, result must equal the expected "
        "argument list computed by the check; end-to-end: link with WILD_SAVE_DIR, run run-with with the same binary, compare bytes.")
ASSUMPTIONS = [
    "arguments are valid UTF-8 without NUL (wild's argument parser requires UTF-8; execve forbids NUL)",
    "the values of D / OUT substituted into saved response files do not themselves contain the texts $D / $OUT",
]
EXPLANATION = ("The rendering that existed before scratch/fixes/c24-quote-args.diff (copies written as unquoted $D/<path>, only space, $ and \\ "
               "escaped, response-file arguments written raw, empty argument made the link fail) violated the property; the fix single-quotes every "
               "word, double-quotes the variables and writes response-file arguments inside double quotes. The old rendering is kept in the model "
               "(renderItemsOld) with kernel-checked witnesses per character class as regression seeds.")

ALPHA = list("abDOUT01") + list(" \t\n'\"\\$;&|<>()*?[]{}~#!`=%^,:@.-+") + ["é", "中"]
NAMECH = list("abDOUT01") + list(" \t\n'\"\\$;&|<>()*?[]{}~#!`=%^,:@.-+") + ["é"]


def hx(s):
    b = s.encode("utf-8")
    return b.hex() if b else "-"


def unhx(h):
    return b"" if h == "-" else bytes.fromhex(h)


def rand_text(r, lo=0, hi=8, alpha=ALPHA):
    return "".join(r.choice(alpha) for _ in range(r.range(lo, hi)))


def rand_name(r):
    while True:
        n = rand_text(r, 1, 6, NAMECH)
        if n not in (".", "..") and not n.startswith("@") and "/" not in n:
            return n


def comps(p):
    return [c for c in p.split("/") if c not in ("", ".")]


def rel_of(cwd, p):
    return "/".join((comps(cwd) if not p.startswith("/") else []) + comps(p))


def mk_path(base, p, is_dir=False):
    """create file/dir p (may contain ., .., //) below/relative to base following the kernel's resolution."""
    cur = "/" if p.startswith("/") else base
    parts = [c for c in p.split("/") if c != ""]
    for i, c in enumerate(parts):
        if c == ".":
            continue
        if c == "..":
            cur = os.path.dirname(cur)
            continue
        cur = os.path.join(cur, c)
        last = i == len(parts) - 1
        if last and not is_dir:
            if not os.path.exists(cur):
                open(cur, "w").close()
        else:
            os.makedirs(cur, exist_ok=True)
    return cur


class Case:
    def __init__(self, idx, root):
        self.idx = idx
        self.root = root
        self.args = []      # texts
        self.cwd = None
        self.sd = None


def gen_case(ctx, r, idx, root, rsp_mode=False):
    """Builds the directory tree for one case and returns (cwd, savedir, [args])."""
    base = os.path.join(root, str(idx))
    cwdname = r.choice(["w", "w d", "w'q", "w$D", "w;x"])
    cwd = os.path.join(base, cwdname)
    sd = os.path.join(base, "sv")
    os.makedirs(cwd)
    os.makedirs(sd)
    args = []

    def file_variant(name):
        k = r.below(6)
        if k == 0:
            return name
        if k == 1:
            return "./" + name
        if k == 2:
            return "sub//" + name
        if k == 3:
            return "sub/../" + name
        if k == 4:
            return cwd + "/" + name
        return "s1/./s2/" + name

    def add_file(copied=True):
        p = file_variant(rand_name(r))
        mk_path(cwd, p)
        if copied:
            ap = p if p.startswith("/") else cwd + "/" + p
            mk_path(sd, ap.lstrip("/"))
        return p

    n = r.range(1, 7)
    while len(args) < n:
        k = r.below(14)
        if k <= 3:
            t = rand_text(r, 0, 9)
            if t.startswith("@"):
                t = "x" + t
            args.append(t)
            ctx.count("arg-kind", "text")
        elif k == 4:
            args.append(add_file(True))
            ctx.count("arg-kind", "copied-file")
        elif k == 5:
            args.append(add_file(False))
            ctx.count("arg-kind", "uncopied-file")
        elif k == 6:
            args.append("--" + rand_text(r, 0, 3, list("abv-")) + "=" + add_file(r.chance(2, 3)))
            ctx.count("arg-kind", "opt=file")
        elif k == 7:
            args.append("--v=" + rand_text(r, 0, 5))
            ctx.count("arg-kind", "opt=text")
        elif k == 8:
            if r.chance(1, 2):
                args.append("-o")
                args.append(rand_text(r, 0, 5))
            else:
                args.append("-o" + rand_text(r, 1, 5))
            ctx.count("arg-kind", "-o")
        elif k == 9:
            d = r.choice([rand_name(r), "./" + rand_name(r), cwd + "/" + rand_name(r), "nd/" + rand_name(r)])
            if r.chance(2, 3):
                mk_path(cwd, d, is_dir=True)
            if r.chance(1, 2):
                args.append("-L")
                args.append(d)
            else:
                args.append("-L" + d)
            ctx.count("arg-kind", "-L")
        elif k == 10 and not rsp_mode:
            name = rand_name(r)
            with open(os.path.join(cwd, name), "w") as f:
                f.write("x y\n'z w'\n")
            args.append("@" + name)
            ctx.count("arg-kind", "@rsp")
        elif k == 11 and not rsp_mode:
            args.append("")
            ctx.count("arg-kind", "empty")
        elif k == 12:
            args.append(rand_text(r, 1, 4, list("ab=")) + "=")
            ctx.count("arg-kind", "trailing=")
        else:
            args.append(r.choice(["a", "-a", "--as-needed", "b.o"]))
            ctx.count("arg-kind", "safe")
    return cwd, sd, args


def flags_for(cwd, sd, t):
    f = ""
    if "=" in t:
        suf = t.split("=", 1)[1]
        if suf and os.path.exists(suf if suf.startswith("/") else os.path.join(cwd, suf)):
            f += "e"
        if suf and os.path.exists(os.path.join(sd, rel_of(cwd, suf))):
            f += "s"
    if t and os.path.exists(os.path.join(sd, rel_of(cwd, t))):
        f += "w"
    if t.startswith("@") and os.path.isfile(os.path.join(cwd, t[1:])):
        f += "r"
    return f or "-"


def expected_words(cwd, sd, args, D, OUT, rsp_vals):
    """Independent statement of what wild must receive on replay."""
    out = []
    i = 0
    nrsp = 0
    while i < len(args):
        t = args[i]
        i += 1
        if t.startswith("@"):
            out.append("@" + rsp_vals[nrsp])
            nrsp += 1
        elif t.startswith("-o"):
            if t == "-o":
                i += 1
            out += ["-o", OUT]
        elif t.startswith("-L"):
            d = t[2:]
            if d == "":
                d = args[i] if i < len(args) else ""
                i += 1
            out.append("-L" + D + "/" + rel_of(cwd, d))
        else:
            pre, p = "", t
            if "=" in t:
                a, suf = t.split("=", 1)
                if suf and os.path.exists(suf if suf.startswith("/") else os.path.join(cwd, suf)):
                    pre, p = a + "=", suf
            if p and os.path.exists(os.path.join(sd, rel_of(cwd, p))):
                out.append(pre + D + "/" + rel_of(cwd, p))
            else:
                out.append(pre + p)
    return out


def bash_words(text, env, cwd):
    """Real bash: the words of `set -- <text>`; None if bash reports an error."""
    script = b"set -- " + text + b"\nfor a in \"$@\"; do printf '%s\\0' \"$a\"; done\n"
    e = {"PATH": "/nonexistent", "LC_ALL": "C"}
    e.update(env)
    try:
        p = subprocess.run(["/bin/bash", "--norc", "--noprofile", "-c", script.decode("utf-8", "surrogateescape")], env=e, cwd=cwd,
                           stdout=subprocess.PIPE, stderr=subprocess.PIPE, timeout=20)
    except subprocess.TimeoutExpired:
        return None
    if p.returncode != 0 or p.stderr:
        return None
    parts = p.stdout.split(b"\0")
    return [x.decode("utf-8", "surrogateescape") for x in parts[:-1]]


def glob_dir(ctx):
    """Directory bash runs in: contains files that unquoted glob characters would match."""
    gdir = os.path.join(ctx.scratch, "glob")
    if not os.path.isdir(gdir):
        os.makedirs(gdir)
        for f in ("a", "b", "ab", "D", "aD"):
            open(os.path.join(gdir, f), "w").close()
    return gdir


def validate_shsplit(ctx, r, n):
    """Spec validation: every text ShSplit splits must be split identically by real bash."""
    gdir = glob_dir(ctx)
    frag = ["'", '"', "\\", "$D", "$OUT", "\"$D\"", "$X", " ", "  ", " \\\n  ", "a", "b", "/", "-o", "'\\''", "\\'", "\\\"", "\\$", "$", "#", "~",
            "=", "\t", "\n", "*", "?", ";", "{", "}", "!", "@", "$RSP_0", "\"$RSP_0\"", "é", "\\\\", "%", "^", ",", "]"]
    vals = ["", "/s", "/s d", " x ", "a\tb", "q'r", 'q"r', "v$D", "x\ny", "  ", "a  b "]
    lines, envs = [], []
    for _ in range(n):
        text = "".join(r.choice(frag) for _ in range(r.range(1, 10)))
        env = {"D": r.choice(vals), "OUT": r.choice(vals), "X": r.choice(vals), "RSP_0": r.choice(["/tmp/t.1", "/t m"])}
        lines.append("c24-split " + hx(text) + " " + " ".join(f"{k}={hx(v)}" for k, v in env.items()))
        envs.append((text, env))
    outs = ctx.model_eval(lines)
    nsome = 0
    for l, o, (text, env) in zip(lines, outs, envs):
        ctx.note_case(("shsplit", l), o != "none")
        if o == "none":
            ctx.count("shsplit-validation", "outside-subset")
            continue
        nsome += 1
        toks = o.split(" ", 1)[1]
        ws = [] if toks == "none" else [unhx(h).decode() for h in toks.split(",")]
        bw = bash_words(text.encode(), env, gdir)
        ctx.count("shsplit-validation", "checked-against-bash")
        if bw != ws:
            ctx.broken.append(f"ShSplit spec validation: model splits {text!r} (env {env}) into {ws!r}, bash into {bw!r}")
            return
    ctx.cov["correspondences"]["shsplit-vs-bash"] = {"requests": nsome, "disagreements": 0}


def inprocess(ctx, r, n, root):
    os.makedirs(root)
    cases, lines = [], []
    for i in range(n):
        cwd, sd, args = gen_case(ctx, r, i, root)
        lines.append("c24-emit " + hx(cwd) + " " + hx(sd) + " " + " ".join(hx(a) + ":" + flags_for(cwd, sd, a) for a in args))
        cases.append((cwd, sd, args))
    dis, impl, model = ctx.differential("c24-emit", lines)
    # oracle on the real code's text: real bash must split it into the expected argument list
    gdir = glob_dir(ctx)
    nerr = 0
    for l, o, (cwd, sd, args) in zip(lines, impl, cases):
        if not o.startswith("ok"):
            nerr += 1
            # write_args may only refuse what cannot be replayed at all: -L without directory, unreadable @file
            legit = any(a == "-L" for a in args[-1:]) or any(a == "-L" and b == "" for a, b in zip(args, args[1:]))
            if not legit:
                ctx.cov["impl_oracle_failures"] += 1
                ctx.violation("save-dir:write_args-error", f"write_args fails for argument list {args!r}; the link would fail with WILD_SAVE_DIR set",
                              {"request": l, "args": args, "observed": o})
            continue
        text = unhx(o.split(" ", 1)[1]) if " " in o else b""
        D = r.choice([sd, "/s v/x", "/q'\"$D;*"])
        OUT = r.choice(["/tmp/o", "o u t", "*;'\""])
        rsp = ["/tmp/tmp.%d x" % k for k in range(8)]
        env = {"D": D, "OUT": OUT}
        env.update({f"RSP_{k}": v for k, v in enumerate(rsp)})
        exp = expected_words(cwd, sd, args, D, OUT, rsp)
        got = bash_words(text, env, gdir)
        if got != exp:
            ctx.cov["impl_oracle_failures"] += 1
            cls = classify_failure(args)
            ctx.violation("save-dir:run-with-quoting:" + cls,
                          f"bash splits the run-with text for arguments {args!r} into {got!r}, replay needs {exp!r}",
                          {"request": l, "args": args, "emitted": text.decode('utf-8', 'replace'), "bash": got, "expected": exp, "env": env,
                           "how": "echo '<request>' | /verif/.target/wvh/debug/wvh ; set -- <text> under bash"})
    ctx.count("emit-result", "error", nerr)
    ctx.count("emit-result", "ok", len(lines) - nerr)


def classify_failure(args):
    s = "".join(args)
    for ch, name in [("'", "single-quote"), ('"', "double-quote"), ("\n", "newline"), (";", "semicolon"), ("*", "glob"), (" ", "space")]:
        if ch in s:
            return name
    return "other"


def rsp_and_tok(ctx, r, n, root):
    os.makedirs(root)
    # tokenizer correspondence
    frag = ["a", "b", " ", "\n", "\t", "'", '"', "\\", "\\ ", "\\\"", "\\'", "$D", "x y", " ", " ", "é", "=", "-o", "\"$OUT\"", "''", '""']
    lines = ["c24-tok " + hx("".join(r.choice(frag) for _ in range(r.range(0, 9)))) for _ in range(n)]
    ctx.differential("c24-tok", lines)
    # at-file rendering correspondence + oracle: the run-with loop (real bash) + the real tokenizer give the arguments back
    cases, lines = [], []
    for i in range(n // 2):
        cwd, sd, args = gen_case(ctx, r, i, root, rsp_mode=True)
        args = [a for a in args if a != ""] or ["a"]     # the tokenizer cannot produce an empty argument
        lines.append("c24-rsp " + hx(cwd) + " " + hx(sd) + " " + " ".join(hx(a) + ":" + flags_for(cwd, sd, a) for a in args))
        cases.append((cwd, sd, args))
    dis, impl, model = ctx.differential("c24-rsp", lines)
    loop = ("DQ=${D//\\\\/\\\\\\\\}; DQ=${DQ//\\\"/\\\\\\\"}\nOUTQ=${OUT//\\\\/\\\\\\\\}; OUTQ=${OUTQ//\\\"/\\\\\\\"}\n"
            "while IFS= read -r LINE || [ -n \"$LINE\" ]; do\nLINE=${LINE//\\$D/\"$DQ\"}\nLINE=${LINE//\\$OUT/\"$OUTQ\"}\nprintf '%s\\n' \"$LINE\"\ndone\n")
    toks, exps, metas = [], [], []
    for l, o, (cwd, sd, args) in zip(lines, impl, cases):
        if not o.startswith("ok"):
            continue
        text = unhx(o.split(" ", 1)[1]) if " " in o else b""
        D = r.choice([sd, "/s v/x", "/q'\"\\a&b"])
        OUT = r.choice(["/tmp/o", "o u t", "*;'\"\\"])
        p = subprocess.run(["/bin/bash", "--norc", "--noprofile", "-c", loop], input=text, env={"D": D, "OUT": OUT, "PATH": "/nonexistent", "LC_ALL": "C"},
                           stdout=subprocess.PIPE, stderr=subprocess.PIPE, timeout=20)
        toks.append("c24-tok " + (p.stdout.hex() or "-"))
        exps.append(expected_words(cwd, sd, args, D, OUT, []))
        metas.append((l, args, text, D, OUT))
    outs = ctx.impl_eval(toks)
    for o, exp, (l, args, text, D, OUT) in zip(outs, exps, metas):
        want = "ok " + (",".join(hx(w) for w in exp) if exp else "none")
        if o != want:
            ctx.cov["impl_oracle_failures"] += 1
            ctx.violation("save-dir:response-file-quoting:" + classify_failure(args),
                          f"saved response file for arguments {args!r} is read back as {o!r}, replay needs {exp!r}",
                          {"request": l, "args": args, "at_file": text.decode('utf-8', 'replace'), "D": D, "OUT": OUT, "tokenized": o, "expected": want})
    # model-only: the substitution loop of the model vs real bash
    sub_lines, sub_meta = [], []
    for (l, args, text, D, OUT) in metas[: (40 if ctx.quick else 400)]:
        sub_lines.append("c24-subst " + hx(D) + " " + hx(OUT) + " " + (text.hex() or "-"))
        sub_meta.append((text, D, OUT))
    mo = ctx.model_eval(sub_lines)
    for o, (text, D, OUT) in zip(mo, sub_meta):
        p = subprocess.run(["/bin/bash", "--norc", "--noprofile", "-c", loop], input=text, env={"D": D, "OUT": OUT, "PATH": "/nonexistent", "LC_ALL": "C"},
                           stdout=subprocess.PIPE, stderr=subprocess.PIPE, timeout=20)
        want = p.stdout
        got = unhx(o.split(" ", 1)[1]) if " " in o else b""
        # the loop terminates every line with \n; the model substitutes on the text as is
        if got.rstrip(b"\n") != want.rstrip(b"\n"):
            ctx.broken.append(f"substRsp spec validation: model {got!r} vs bash {want!r} for D={D!r} OUT={OUT!r} text={text!r}")
            break


# ---------------------------------------------------------------------------------------------
# end-to-end replays

A_C = "int foo(void);\nint bar(void);\nvoid _start(void) { foo(); bar(); __asm__ volatile(\"mov $60,%eax; xor %edi,%edi; syscall\"); }\n"
B_C = "int foo(void) { return 42; }\n"
C_C = "int bar(void) { return 7; }\n"


def build_objs(ctx):
    d = os.path.join(ctx.scratch, "objs")
    os.makedirs(d)
    for n, s in (("a", A_C), ("b", B_C), ("c", C_C)):
        open(os.path.join(d, n + ".c"), "w").write(s)
    rc, out = runner.sh(["gcc", "-c", "-O1", "-fno-stack-protector", "-fno-asynchronous-unwind-tables", "-fPIC", "a.c", "b.c", "c.c"], cwd=d)
    if rc != 0:
        raise runner.BuildError("gcc failed: " + out)
    return d


def e2e_cases():
    """(name, {dest file name: source}, setup commands run with cwd, wild args after -o OUT, output name)"""
    cs = []
    cs.append(("plain", {"a.o": "a", "b.o": "b", "c.o": "c"}, [], ["a.o", "b.o", "c.o"]))
    cs.append(("space", {"a.o": "a", "b b.o": "b", "c.o": "c"}, [], ["a.o", "b b.o", "c.o"]))
    cs.append(("single-quote", {"a.o": "a", "it's.o": "b", "c.o": "c"}, [], ["a.o", "it's.o", "c.o"]))
    cs.append(("double-quote", {"a.o": "a", 'q"q.o': "b", "c.o": "c"}, [], ["a.o", 'q"q.o', "c.o"]))
    cs.append(("semicolon-amp", {"a.o": "a", "s;e&m|i.o": "b", "c.o": "c"}, [], ["a.o", "s;e&m|i.o", "c.o"]))
    cs.append(("glob", {"a.o": "a", "st*r.o": "b", "stXr.o": "c", "c.o": "c"}, [], ["a.o", "st*r.o", "c.o"]))
    cs.append(("dollar-backslash", {"a.o": "a", "d$D\\x.o": "b", "c.o": "c"}, [], ["a.o", "d$D\\x.o", "c.o"]))
    cs.append(("newline", {"a.o": "a", "new\nline.o": "b", "c.o": "c"}, [], ["a.o", "new\nline.o", "c.o"]))
    cs.append(("paren-hash-tilde", {"a.o": "a", "~#(x) {y}.o": "b", "c.o": "c"}, [], ["a.o", "~#(x) {y}.o", "c.o"]))
    cs.append(("response-file", {"a.o": "a", "b b.o": "b", "c'c.o": "c"}, [("write", "my args.rsp", "'b b.o'\n\"c'c.o\"\n")], ["a.o", "@my args.rsp"]))
    # arguments inside a response file that span lines, with blanks next to the embedded newlines and at the line ends
    cs.append(("response-file-multiline", {"a.o": "a", "b.o": "b", "c.o": "c"},
               [("write", "multi.rsp", "-shared a.o b.o\n  c.o --build-id=none \"-soname=lib x\n   y.so \n\tz \"\n")], ["@multi.rsp"]))
    cs.append(("response-file-multiline-rpath", {"a.o": "a", "b.o": "b", "c.o": "c"},
               [("write", "multi2.rsp", "'-rpath=/opt/a \n /opt/b'\n\t a.o\n")], ["-shared", "@multi2.rsp", "b.o", "c.o", "--build-id=none"]))
    cs.append(("implicit-linker-script", {"a.o": "a", "b b.o": "b", "c.o": "c"}, [("write", "in puts.ld", "INPUT(\"b b.o\" c.o)\n")], ["a.o", "in puts.ld"]))
    cs.append(("thin-archive", {"a.o": "a", "b b.o": "b", "c.o": "c"}, [("run", ["ar", "rcT", "thin lib.a", "b b.o", "c.o"])], ["a.o", "thin lib.a"]))
    cs.append(("version-script-shared", {"a.o": "a", "b.o": "b", "c.o": "c"}, [("write", "ver s'.map", "{ global: foo; local: *; };\n")],
               ["-shared", "a.o", "b.o", "c.o", "--version-script=ver s'.map"]))
    cs.append(("soname-metachars", {"a.o": "a", "b.o": "b", "c.o": "c"}, [], ["-shared", "a.o", "b.o", "c.o", "-soname=lib my;'\"*.so", "--build-id=none"]))
    cs.append(("libdir-space", {"a.o": "a", "l d/libbc.a": None}, [("run", ["ar", "rc", "l d/libbc.a", "../objs/b.o", "../objs/c.o"])], ["a.o", "-L", "l d", "-lbc"]))
    return cs


def end_to_end(ctx, objs):
    cs = e2e_cases()
    if ctx.quick:
        pass
    for k, (name, files, setup, args) in enumerate(cs):
        base = os.path.join(ctx.scratch, "e2e", f"{k} {name}" if k % 2 else f"{k}-{name}")
        wd = os.path.join(base, "wd")
        os.makedirs(wd)
        for dest, src in files.items():
            p = os.path.join(wd, dest)
            os.makedirs(os.path.dirname(p), exist_ok=True)
            if src is not None:
                shutil.copy(os.path.join(objs, src + ".o"), p)
        for st in setup:
            if st[0] == "write":
                open(os.path.join(wd, st[1]), "w").write(st[2])
            else:
                cmd = [a.replace("../objs", objs) for a in st[1]]
                p = subprocess.run(cmd, cwd=wd, stdout=subprocess.PIPE, stderr=subprocess.STDOUT)
                if p.returncode != 0:
                    raise runner.BuildError(f"setup {cmd} failed: {p.stdout!r}")
        sd = os.path.join(base, "save d" if k % 3 == 0 else "save")
        out1 = os.path.join(wd, "out 1" if k % 2 else "out1")
        out2 = os.path.join(base, "re play" if k % 2 else "replay")
        cmd = [runner.WILD, "-o", out1] + args
        env = dict(os.environ)
        env["WILD_SAVE_DIR"] = sd
        try:
            p = subprocess.run(cmd, cwd=wd, env=env, stdout=subprocess.PIPE, stderr=subprocess.STDOUT, timeout=120)
        except subprocess.TimeoutExpired:
            p = subprocess.CompletedProcess(cmd, 124, b"timed out after 120 s", b"")
        ctx.note_case(("e2e", name))
        ctx.count("e2e", name)
        replay = {"case": name, "cwd": wd, "cmd": cmd, "env": {"WILD_SAVE_DIR": sd}, "then": [os.path.join(sd, "run-with"), runner.WILD], "OUT": out2}
        if p.returncode != 0 or not os.path.exists(out1):
            ctx.cov["impl_oracle_failures"] += 1
            ctx.violation("save-dir:e2e-link-fails:" + name, f"link with WILD_SAVE_DIR failed: {p.stdout.decode('utf-8', 'replace')[-400:]}", replay)
            continue
        env2 = dict(os.environ)
        env2["OUT"] = out2
        env2.pop("WILD_SAVE_DIR", None)
        try:
            q = subprocess.run([os.path.join(sd, "run-with"), runner.WILD], cwd=base, env=env2, stdout=subprocess.PIPE, stderr=subprocess.STDOUT, timeout=120)
        except subprocess.TimeoutExpired:
            q = subprocess.CompletedProcess([], 124, b"timed out after 120 s", b"")
        ok = q.returncode == 0 and os.path.exists(out2) and open(out1, "rb").read() == open(out2, "rb").read()
        if not ok:
            ctx.cov["impl_oracle_failures"] += 1
            why = "replay failed" if q.returncode != 0 or not os.path.exists(out2) else "replayed output differs from the original"
            replay["run_with_output"] = q.stdout.decode("utf-8", "replace")[-600:]
            try:
                replay["run_with"] = open(os.path.join(sd, "run-with")).read()[-1500:]
            except OSError:
                pass
            ctx.violation("save-dir:e2e-replay:" + name, f"{why} (case {name})", replay)
        else:
            ctx.sample({"e2e": name, "args": args, "bytes": os.path.getsize(out1), "identical": True})


def run(ctx):
    r = ctx.rng
    n = 250 if ctx.quick else 6000
    validate_shsplit(ctx, r.fork(), 800 if ctx.quick else 20000)
    inprocess(ctx, r.fork(), n, os.path.join(ctx.scratch, "ip"))
    rsp_and_tok(ctx, r.fork(), n, os.path.join(ctx.scratch, "rsp"))
    objs = build_objs(ctx)
    end_to_end(ctx, objs)
