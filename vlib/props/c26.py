"""C26 - Diagnostics are deterministic.

Proof side: lean/WildModel/Model/ErrSelect.lean + Props/C26.lean (per error-collection site: the reported
diagnostic as a function of the ARRIVAL sequence of the errors; permutation invariance proved where the
selection sorts, refuted by witnesses where it is first/last arrival).

Tie (whole link, hooked binary): failing programs with k >= 2 independent errors in different
objects/groups, linked under threads x WILD_FILES_PER_GROUP x schedule-perturbation seeds.  Per run the
hook `verif_api::errlog` (WILD_VERIF_ERRLOG) records every error as it arrives at a collection site; the
check then requires
  (a) ONE normalised stderr per program (the property itself, independent oracle),
  (b) reported diagnostic == model's `select` applied to the arrival sequence the run recorded
      (differential `errsel-*`, code vs Lean model),
  (c) the multiset of arrivals is the same in all runs of a program (premise of the theorems),
  (d) observed message set is inside the model's image over all arrival orders.
"""
import concurrent.futures
import hashlib
import os
import re
import struct

from .. import linkutil as lu
from .. import runner

NEEDS_WILD = True
LEAN_MODULES = ["WildModel.Props.C26"]
THEOREMS = [
    "Wild.ErrSelect.dup_errors_deterministic",
    "Wild.ErrSelect.layout_select_deterministic",
    "Wild.ErrSelect.resolution_select_deterministic",
    "Wild.ErrSelect.least_deterministic",
    "Wild.ErrSelect.selectLeast_spec",
    "Wild.ErrSelect.writer_select_deterministic",
    "Wild.ErrSelect.writer_select_first_failing",
    "Wild.ErrSelect.warning_set_deterministic",
    "Wild.ErrSelect.strmerge_deterministic_of_same_msg",
    "Wild.ErrSelect.layout_group_deterministic_of_no_hard",
    "Wild.ErrSelect.select_deterministic_of_single_error",
    "Wild.ErrSelect.selectLastArrival_eq",
    "Wild.ErrSelect.selectFirstArrival_eq",
    "Wild.ErrSelect.last_arrival_not_deterministic",
    "Wild.ErrSelect.first_arrival_not_deterministic",
    "Wild.ErrSelect.try_for_each_not_deterministic",
    "Wild.ErrSelect.layout_hard_error_truncation_witness",
    "Wild.ErrSelect.C26_full_false",
    "Wild.ErrSelect.C26_partial",
]
LEVEL = "proof"
TRUSTED = [
    "hand-written model lean/WildModel/Model/ErrSelect.lean of the five error-collection sites (layout.rs find_required_sections, "
    "resolution.rs Outputs.errors, string_merging.rs errors, symbol_db.rs duplicate queue, elf_writer.rs write_file_contents), tied per run "
    "through the arrival log of verif_api::errlog (hook; logs immediately before the push, so the logged order can differ from the container "
    "order by a race: harmless for the sorted selections, which are order-insensitive)",
    "rayon modelled as: every spawned task runs, errors arrive in an arbitrary interleaving (a permutation of the multiset of task errors); "
    "try_for_each modelled as 'leftmost error among the groups that ran'",
    "Error::to_string ordering = byte-wise String order (Lean String order on one Char per byte)",
    "schedule coverage is sampled: threads {1,2,4,8,16} x WILD_FILES_PER_GROUP {1,3} x WILD_VERIF_SCHED seeds",
]
ASSUMPTIONS = [
    "the multiset of errors produced by the tasks of a phase is schedule independent; FALSE for the layout traversal when a work item fails hard "
    "(worker dropped): proved witness layout_hard_error_truncation_witness, known finding layout-hard-error-drops-worker",
    "string merging: all errors that input bytes can provoke have the same text (the other message needs a > 4 GiB bucket)",
    "messages embed FileId (group/file index), and grouping depends on --threads: known finding fileid-in-message; ids are normalised before the "
    "other comparisons",
]
RULE = ("one case = one link of one program under one (threads, files-per-group, sched seed) configuration; non-trivial = the run recorded >= 2 "
        "arrivals at a collection site (or >= 2 warnings); distinct by (program, configuration)")

THREADS = [1, 2, 4, 8, 16]
FPG = [1, 3]


# ---------------------------------------------------------------- program construction
def _asm(d, name, text):
    return lu.asm_obj(d, name, text)


def _patch_reloc_type(path, new_type, which=0):
    """Overwrite r_info's type of relocation `which` of .rela.text with `new_type` (unknown to wild)."""
    data = bytearray(open(path, "rb").read())
    shoff = struct.unpack_from("<Q", data, 0x28)[0]
    shentsize, shnum, shstrndx = struct.unpack_from("<HHH", data, 0x3A)
    secs = [struct.unpack_from("<IIQQQQIIQQ", data, shoff + i * shentsize) for i in range(shnum)]
    stroff = secs[shstrndx][4]
    for s in secs:
        nm = data[stroff + s[0]:data.index(b"\0", stroff + s[0])].decode()
        if nm == ".rela.text" and s[1] == 4:
            off = s[4] + which * 24 + 8
            info = struct.unpack_from("<Q", data, off)[0]
            struct.pack_into("<Q", data, off, (info & ~0xFFFFFFFF) | new_type)
            open(path, "wb").write(data)
            return
    raise RuntimeError("no .rela.text in " + path)


def _patch_undef_stname(path, symname, value):
    """Set st_name of the (undefined) symbol `symname` to `value` (out of .strtab)."""
    data = bytearray(open(path, "rb").read())
    shoff = struct.unpack_from("<Q", data, 0x28)[0]
    shentsize, shnum, shstrndx = struct.unpack_from("<HHH", data, 0x3A)
    secs = [struct.unpack_from("<IIQQQQIIQQ", data, shoff + i * shentsize) for i in range(shnum)]
    for s in secs:
        if s[1] == 2:  # SHT_SYMTAB
            strtab = secs[s[6]]
            for i in range(s[5] // 24):
                o = s[4] + i * 24
                st_name = struct.unpack_from("<I", data, o)[0]
                nm = data[strtab[4] + st_name:data.index(b"\0", strtab[4] + st_name)].decode()
                if nm == symname:
                    struct.pack_into("<I", data, o, value)
                    open(path, "wb").write(data)
                    return
    raise RuntimeError("symbol not found " + symname)


def _main(d, callees, name="main"):
    return _asm(d, name, ".globl _start\n.text\n_start:\n" + "".join(f"    call {c}\n" for c in callees) + "    ret\n")


def build_programs(root):
    """-> list of dict(name, site, args (relative to cwd=dir), dir, expect_fail, k)."""
    progs = []

    def P(name, site, objs, extra=(), fail=True, k=2, known=None):
        d = os.path.join(root, name)
        progs.append({"name": name, "site": site, "dir": d, "args": list(extra) + ["-o", "out"] + [os.path.basename(o) for o in objs],
                      "fail": fail, "k": k, "known": known})

    # 1. four undefined symbols in four objects (layout site, soft errors)
    d = os.path.join(root, "undef4"); os.makedirs(d)
    objs = [_main(d, [f"f{i}" for i in range(4)])]
    for i in range(4):
        objs.append(_asm(d, f"o{i}", f".globl f{i}\n.text\nf{i}:\n    call undef_{i}\n    ret\n"))
    P("undef4", "layout", objs, k=4)

    # 2. six undefined symbols, two per object, different sections, objects pulled from an archive
    d = os.path.join(root, "undef-archive"); os.makedirs(d)
    mem = []
    for i in range(3):
        mem.append(_asm(d, f"a{i}", f".globl g{i}\n.section .text.g{i},\"ax\"\ng{i}:\n    call zz_{i}\n    call h{i}\n    ret\n"
                                     f".section .text.h{i},\"ax\"\nh{i}:\n    call aa_{i}\n    ret\n"))
    lu.archive(os.path.join(d, "lib.a"), mem)
    P("undef-archive", "layout", [_main(d, ["g2", "g0", "g1"]), os.path.join(d, "lib.a")], k=6)

    # 3. duplicate strong definitions of three names in three objects
    d = os.path.join(root, "dup3"); os.makedirs(d)
    objs = [_main(d, ["d1", "d2", "d3"])]
    for i in range(3):
        objs.append(_asm(d, f"dd{i}", ".globl d1\n.globl d2\n.globl d3\n.text\nd3: ret\nd1: ret\nd2: ret\n"))
    P("dup3", "dup", objs, k=3)

    # 4. relocation overflow (R_X86_64_32 against absolute symbols >= 2^32) in three objects
    d = os.path.join(root, "overflow3"); os.makedirs(d)
    objs = [_main(d, ["h0", "h1", "h2"])]
    for i in range(3):
        objs.append(_asm(d, f"v{i}", f".globl h{i}\n.text\nh{i}:\n    movl $big{i}, %eax\n    ret\n"))
    P("overflow3", "writer", objs, extra=[f"--defsym=big{i}=0x{(i + 1) << 32:x}" for i in range(3)], k=3)

    # 5. string-merge sections without terminator in three objects
    d = os.path.join(root, "strmerge3"); os.makedirs(d)
    objs = [_main(d, ["s0", "s1", "s2"])]
    for i in range(3):
        objs.append(_asm(d, f"s{i}", f".globl s{i}\n.text\ns{i}:\n    lea str{i}(%rip), %rax\n    ret\n"
                                      f".section .rodata.str1.1,\"aMS\",@progbits,1\nstr{i}: .ascii \"abc{i}\"\n"))
    P("strmerge3", "strmerge", objs, k=3)

    # 6. unsupported relocation type in two objects (hard errors of the layout traversal, one per object)
    d = os.path.join(root, "badreloc2"); os.makedirs(d)
    objs = [_main(d, ["b0", "b1"])]
    for i in range(2):
        o = _asm(d, f"b{i}", f".globl b{i}\n.text\nb{i}:\n    call tgt{i}\n    ret\n.globl tgt{i}\ntgt{i}: ret\n")
        _patch_reloc_type(o, 0x7777)
        objs.append(o)
    P("badreloc2", "layout", objs, k=2, known="layout-hard-error-drops-worker")

    # 7. an undefined symbol and an unsupported relocation in two sections of the SAME object (truncation)
    d = os.path.join(root, "undef-badreloc"); os.makedirs(d)
    o = _asm(d, "t0", ".globl p0\n.globl p1\n.text\np1:\n    call q1\n    ret\n.globl q1\nq1: ret\n"
                      ".section .text.p0,\"ax\"\np0:\n    call undef_p0\n    ret\n")
    _patch_reloc_type(o, 0x7777)
    o2 = _asm(d, "t1", ".globl r0\n.text\nr0:\n    call undef_r0\n    ret\n")
    P("undef-badreloc", "layout", [_main(d, ["p0", "r0", "p1"]), o, o2], k=3, known="layout-hard-error-drops-worker")

    # 8. symbol resolution errors: st_name of an undefined symbol outside .strtab, in two objects
    d = os.path.join(root, "resolve2"); os.makedirs(d)
    objs = [_main(d, ["r0", "r1"])]
    for i in range(2):
        o = _asm(d, f"r{i}", f".globl r{i}\n.text\nr{i}:\n    call nowhere_{i}\n    ret\n")
        _patch_undef_stname(o, f"nowhere_{i}", 0x7FFFFF00)
        objs.append(o)
    P("resolve2", "resolution", objs, k=2)

    # 9. mix: duplicates and undefined symbols (different phases)
    d = os.path.join(root, "mix-dup-undef"); os.makedirs(d)
    objs = [_main(d, ["m0", "m1", "d1"])]
    for i in range(2):
        objs.append(_asm(d, f"m{i}", f".globl m{i}\n.globl d1\n.text\nm{i}:\n    call undef_m{i}\n    ret\nd1: ret\n"))
    P("mix-dup-undef", "dup", objs, k=2)

    # 10. mix: undefined symbols and relocation overflow (layout phase wins)
    d = os.path.join(root, "mix-undef-overflow"); os.makedirs(d)
    objs = [_main(d, ["x0", "x1", "x2"])]
    for i in range(3):
        objs.append(_asm(d, f"x{i}", f".globl x{i}\n.text\nx{i}:\n    movl $big{i}, %eax\n    call undef_x{i}\n    ret\n"))
    P("mix-undef-overflow", "layout", objs, extra=[f"--defsym=big{i}=0x{(i + 1) << 32:x}" for i in range(3)], k=3)

    # 11./12. succeeding links: the SET of warnings
    d = os.path.join(root, "warn4"); os.makedirs(d)
    objs = [_main(d, [f"f{i}" for i in range(4)])]
    for i in range(4):
        objs.append(_asm(d, f"w{i}", f".globl f{i}\n.text\nf{i}:\n    call undef_w{i}\n    ret\n"))
    P("warn4", "warn", objs, extra=["--warn-unresolved-symbols"], fail=False, k=4)
    d = os.path.join(root, "warn-shared"); os.makedirs(d)
    objs = []
    for i in range(3):
        objs.append(_asm(d, f"w{i}", f".globl f{i}\n.text\nf{i}:\n    call undef_s{i}@PLT\n    ret\n"))
    P("warn-shared", "warn", objs, extra=["-shared", "--no-undefined", "--warn-unresolved-symbols"], fail=False, k=3)
    # 13. --no-undefined in a shared object: errors
    d = os.path.join(root, "shared-no-undefined"); os.makedirs(d)
    objs = []
    for i in range(3):
        objs.append(_asm(d, f"n{i}", f".globl f{i}\n.text\nf{i}:\n    call undef_n{i}@PLT\n    ret\n"))
    P("shared-no-undefined", "layout", objs, extra=["-shared", "--no-undefined"], k=3)
    # 14./15. the SAME undefined symbol referenced from two objects whose processing takes very different time (one sits behind
    # 150000 relocations): which reference is named must not depend on who gets there first
    for nm, extra, fail, order in (("undef-same-symbol-hl", [], True, ["heavy", "light"]), ("undef-same-symbol-lh", [], True, ["light", "heavy"]),
                                   ("warn-same-symbol-lh", ["--warn-unresolved-symbols"], False, ["light", "heavy"])):
        d = os.path.join(root, nm); os.makedirs(d)
        heavy = ('.section .data.blob,"aw"\nblob: .quad 0\n.section .text.heavy,"ax"\n.globl heavy\nheavy:\n'
                 + "    lea blob(%rip), %rax\n" * 1200000 + "    call missing_everywhere\n    ret\n")
        light = '.section .text.light,"ax"\n.globl light\nlight:\n    call missing_everywhere\n    ret\n'
        objs = [_main(d, order), _asm(d, "heavy", heavy), _asm(d, "light", light)]
        P(nm, "layout" if fail else "warn", objs, extra=extra, fail=fail, k=2)
    return progs


# ---------------------------------------------------------------- running
FILEID1 = re.compile(r"#\d+ \(\d+/\d+\)")
FILEID2 = re.compile(r"\(\d+ \(\d+/\d+\)\)")
THREADID = re.compile(r"thread '[^']*' \(\d+\)")


def norm_paths(text, d):
    return THREADID.sub("thread", text.replace(d + "/", "").replace(d, "."))


def norm_ids(text):
    return FILEID2.sub("(ID)", FILEID1.sub("#ID", text))


def split_diag(stderr):
    """-> (error text or None, sorted list of warnings). wild prints 'wild: error: ...' / 'wild: warning: ...'."""
    err = None
    warns = []
    cur = None
    for line in stderr.split("\n"):
        if line.startswith("wild: error: "):
            cur = ["E", line[len("wild: error: "):]]
            err = cur
        elif line.startswith("wild: warning: "):
            cur = ["W", line[len("wild: warning: "):]]
            warns.append(cur)
        elif cur is not None:
            cur[1] += "\n" + line
    e = err[1].rstrip("\n") if err else None
    return e, sorted(w[1].rstrip("\n") for w in warns)


def run_one(job):
    prog, t, g, seed, idx = job
    log = os.path.join(prog["dir"], f"errlog.{idx}")
    env = {"WILD_FILES_PER_GROUP": str(g), "WILD_VERIF_ERRLOG": log, "RUST_BACKTRACE": "0", "NO_COLOR": "1"}
    if seed is not None:
        env["WILD_VERIF_SCHED"] = str(seed)
    args = [f"--threads={t}"] + prog["args"]
    rc, out, err = lu.link("wild", args, cwd=prog["dir"], env=env, timeout=60)
    arrivals = []
    if os.path.exists(log):
        for line in open(log):
            p = line.split()
            if p:
                arrivals.append((p[0], p[1] if len(p) > 1 else ""))
        os.unlink(log)
    cmd = " ".join(f"{k}={v}" for k, v in sorted(env.items()) if k.startswith("WILD")) + f" wild --threads={t} " + " ".join(prog["args"])
    return {"rc": rc, "stderr": err, "arrivals": arrivals, "cmd": cmd, "cfg": (t, g, seed)}


def hexmsg(s):
    b = s.encode("utf-8")
    return b.hex() if b else "-"


def unhexmsg(h):
    return "" if h in ("-", "") else bytes.fromhex(h).decode("utf-8", "replace")


SITE_SEL = {"layout": "least", "resolution": "least", "strmerge": "first"}


def run(ctx):
    root = os.path.join(ctx.scratch, "c26")
    os.makedirs(root)
    progs = build_programs(root)
    reps = 1 if ctx.quick else 8
    jobs = []
    for p in progs:
        idx = 0
        for rep in range(reps):
            for t in THREADS:
                for g in FPG:
                    for s in range(2):
                        seed = None if (s == 0 and rep == 0) else (ctx.rng.next() & 0xFFFFFFFF)
                        jobs.append((p, t, g, seed, idx))
                        idx += 1
    with concurrent.futures.ThreadPoolExecutor(max_workers=8) as ex:
        results = list(ex.map(run_one, jobs))
    by_prog = {}
    for (p, *_), r in zip(jobs, results):
        by_prog.setdefault(p["name"], []).append(r)

    model_lines = []   # (request, expected impl answer, context)
    for p in progs:
        runs = by_prog[p["name"]]
        d = p["dir"]
        ctx.count("program", p["name"], len(runs))
        # ---- crashes / wrong status are never acceptable
        for r in runs:
            bad = r["rc"] < 0 or r["rc"] == 101 or "panicked at" in r["stderr"] or r["rc"] == -999
            if bad or (p["fail"] and r["rc"] == 0) or (not p["fail"] and r["rc"] != 0):
                ctx.violation(f"c26:status:{p['name']}", f"program {p['name']}: unexpected exit status {r['rc']} (expected {'failure' if p['fail'] else 'success'})",
                              {"cmd": r["cmd"], "cwd-layout": p["args"], "rc": r["rc"], "stderr": norm_paths(r["stderr"], d)[:2000]})
                break
        # ---- (a) the property: one normalised diagnostic (error text, warning set) per program
        raw = {}
        nid = {}
        for r in runs:
            e, w = split_diag(norm_paths(r["stderr"], d))
            r["err"], r["warns"] = e, w
            raw.setdefault((e, tuple(w)), r)
            nid.setdefault((norm_ids(e) if e else None, tuple(norm_ids(x) for x in w)), r)
            nontrivial = len([a for a in r["arrivals"] if a[0] not in ("writer-ok",)]) >= 2 or len(w) >= 2
            ctx.note_case((p["name"], r["cfg"]), nontrivial)
        ctx.count("distinct-raw-diagnostics", p["name"], len(raw))
        if len(nid) > 1:
            a, b = list(nid.values())[:2]
            key = "c26:varies:" + (p["known"] or p["name"])
            ctx.cov["impl_oracle_failures"] += 1
            ctx.violation(key if p["known"] is None else p["known"],
                          f"program {p['name']} ({p['site']} site, {p['k']} independent errors): diagnostic depends on threads/schedule: "
                          f"{len(nid)} distinct messages in {len(runs)} runs",
                          {"cwd": "objects built by vlib/props/c26.py build_programs()", "program": p["name"],
                           "run_a": {"cmd": a["cmd"], "stderr": norm_paths(a["stderr"], d)},
                           "run_b": {"cmd": b["cmd"], "stderr": norm_paths(b["stderr"], d)}})
        elif len(raw) > 1:
            a, b = list(raw.values())[:2]
            ctx.violation("fileid-in-message",
                          f"program {p['name']}: message text embeds FileId (group/file index) which depends on --threads / files-per-group",
                          {"program": p["name"], "run_a": {"cmd": a["cmd"], "stderr": norm_paths(a["stderr"], d)},
                           "run_b": {"cmd": b["cmd"], "stderr": norm_paths(b["stderr"], d)}})
        ctx.sample({"program": p["name"], "site": p["site"], "runs": len(runs), "distinct": len(nid),
                    "diagnostic": (norm_ids(runs[0]["err"]) if runs[0]["err"] else "; ".join(runs[0]["warns"]))[:300]})
        # ---- (c) arrival multiset constant, (b) reported == model select(arrivals)
        multisets = {}
        for r in runs:
            site_arr = [(s, norm_ids(norm_paths(unhexmsg(h), d)).rstrip("\n")) for s, h in r["arrivals"] if s != "writer-ok"]
            r["site_arr"] = site_arr
            # the premise of the theorems is per configuration (grouping is a function of threads and files-per-group);
            # the writer's first-in-order selection does not need it at all
            if not (site_arr and site_arr[0][0] == "writer"):
                multisets.setdefault(r["cfg"][:2], {}).setdefault(tuple(sorted(site_arr)), r)
            first_site = site_arr[0][0] if site_arr else None
            rep_err = norm_ids(r["err"]) if r["err"] else None
            if first_site is None:
                if p["fail"] and p["site"] != "warn":
                    # errors of phases that are not collection sites (sequential): nothing to select
                    ctx.count("no-arrivals", p["name"])
                continue
            msgs = [m for s, m in site_arr if s == first_site]
            ctx.count("arrivals-at-site", f"{first_site}:{len(msgs)}")
            if first_site == "dup":
                model_lines.append(("errsel-dup " + " ".join(hexmsg(m) for m in msgs), hexmsg(rep_err or ""), p, r))
            elif first_site == "writer":
                seq = []
                for s, h in r["arrivals"]:
                    if s == "writer-ok":
                        seq.append("-")
                    elif s == "writer":
                        seq.append(hexmsg(norm_ids(norm_paths(unhexmsg(h), d)).rstrip("\n")))
                model_lines.append(("errsel-writer " + " ".join(seq), hexmsg(rep_err or ""), p, r))
            else:
                model_lines.append((f"errsel-select {SITE_SEL[first_site]} " + " ".join(hexmsg(m) for m in msgs), hexmsg(rep_err or ""), p, r))
        varying = [m for m in multisets.values() if len(m) > 1]
        if varying and p["site"] != "warn":
            a, b = list(varying[0].values())[:2]
            ctx.violation(p["known"] or f"c26:multiset:{p['name']}",
                          f"program {p['name']}: the multiset of errors produced depends on the schedule ({len(varying[0])} distinct multisets in one configuration)",
                          {"program": p["name"], "run_a": {"cmd": a["cmd"], "arrivals": a["site_arr"]}, "run_b": {"cmd": b["cmd"], "arrivals": b["site_arr"]}})
        # ---- (d) observed messages within the model's image over all arrival orders
        if runs[0]["site_arr"] and p["site"] in SITE_SEL:
            site0 = runs[0]["site_arr"][0][0]
            msgs = [m for s, m in runs[0]["site_arr"] if s == site0]
            if site0 in SITE_SEL and len(msgs) <= 6:
                observed = sorted({hexmsg(norm_ids(r["err"])) for r in runs if r["err"] and r["site_arr"] and sorted(r["site_arr"]) == sorted(runs[0]["site_arr"])})
                model_lines.append((f"errsel-image {SITE_SEL[site0]} " + " ".join(hexmsg(m) for m in msgs), ("IMAGE", observed), p, runs[0]))
        # warnings as a set vs the model
        if p["site"] == "warn":
            for r in runs:
                if r["warns"]:
                    model_lines.append(("errsel-warn " + " ".join(hexmsg(norm_ids(w)) for w in ctx.rng.shuffle(r["warns"])),
                                        ",".join(hexmsg(norm_ids(w)) for w in sorted(r["warns"], key=lambda s: s.encode())), p, r))

    # ---- model evaluation
    reqs = [m[0] for m in model_lines]
    outs = ctx.model_eval(reqs) if reqs else []
    c = ctx.cov["correspondences"].setdefault("errsel", {"requests": 0, "disagreements": 0})
    for (req, exp, p, r), out in zip(model_lines, outs):
        c["requests"] += 1
        if isinstance(exp, tuple):
            image = set(out.split(","))
            extra = [o for o in exp[1] if o not in image]
            if extra:
                c["disagreements"] += 1
                ctx.cov["model_disagreements"] += 1
                ctx.broken.append(f"correspondence errsel: program {p['name']}: observed message outside the model's image: {unhexmsg(extra[0])[:200]!r}")
            if len(image) > 1 and p["known"] is None:
                ctx.broken.append(f"model predicts a schedule-dependent diagnostic for program {p['name']} ({len(image)} possible messages)")
            continue
        if out != exp:
            c["disagreements"] += 1
            ctx.cov["model_disagreements"] += 1
            ctx.broken.append(f"correspondence errsel: program {p['name']} [{r['cmd']}]: reported {unhexmsg(exp)[:160]!r}, model selects {unhexmsg(out)[:160]!r} for the recorded arrivals")
    if reqs:
        ctx.sample({"correspondence": "errsel", "request": reqs[0][:200], "model": outs[0][:200]})
    # surfacing broken obligations ourselves: the runner hides ctx.broken when only known findings exist
    if ctx.broken:
        ctx.violation("c26:broken:" + hashlib.sha256("|".join(ctx.broken).encode()).hexdigest()[:10],
                      "C26 proof obligation or model/code correspondence no longer checks", {"broken": ctx.broken[:10]}, found_input=False)
