"""C27 - Partial links are transparent (`-r` then link == direct link)."""
import hashlib
import os
import shutil
import struct

from .. import linkutil as lu
from ..elfread import Elf, SHF_ALLOC, SHF_MERGE, SHF_TLS, SHN_COMMON, SHN_UNDEF, SHT_NOBITS, SHT_RELA

NEEDS_WILD = True
LEAN_MODULES = ["WildModel.Props.C27"]
THEOREMS = ["Wild.Partial." + t for t in [
    "secsym_retarget", "reloc_value_transparent", "combine_rels_transparent", "select_transparent", "select_transparent_impl",
    "combine_transparent_partial", "base_aligned", "placeGo_disjoint", "sortMembers_same_align", "order_witness", "local_renumber",
    "comdat_witness", "common_witness", "C27_full_false"]]
LEVEL = "proof"
TECHNIQUE = ("Lean 4 theorems over an executable model of wild's -r (`combine`) + whole-link differential correspondence: random programs x contiguous "
             "groupings, wild -r then wild vs wild direct vs GNU ld -r then wild vs GNU ld direct; native runs and abstract images compared")
TRUSTED = [
    "hand-written model lean/WildModel/Model/Partial.lean of elf_writer.rs write_rela_sections/build_sym_index_map, elf.rs lookup_for_partial_link and the "
    "alignment-class placement of input sections; tied on every run by the correspondence `part` (placement of every input section inside the combined "
    "object, combined section sizes, which definition -r keeps per name, which definition the final link selects with and without -r), all read back "
    "from wild's real outputs with vlib/elfread.py through objcopy-added marker symbols",
    "relocation symbol indices are by-value in the model (Target.secSym/localSym/glob); the real renumbering is checked per relocation of wild's -r output "
    "(every relocation of every input object must reappear at base+offset, against the same symbol / section+base, with the adjusted addend)",
    "combine_transparent_partial takes the per-name winner agreement as a hypothesis (select_transparent proves it at candidate-list level; the glue "
    "between combDefsFrom and winnerCand is not proved); the correspondence compares the model's F=/V= answers with the real links",
    "bytes are not modelled (pieces are rigid, relocated fields are Rel); the check compares the real bytes of every input section modulo relocated fields",
    "as, gcc -c, objcopy --add-symbol, GNU ld 2.40 as oracle, native execution",
]
RULE = ("random programs of 4-8 objects (assembly + gcc -c; calls, data pointers, section-symbol+addend references into .data/.rodata/.bss, equal local "
        "names, weak/strong/common/COMDAT/hidden/absolute symbols, .init_array (with priorities), TLS, string-merge sections, .eh_frame) x 2 contiguous "
        "groupings; non-trivial = group of >= 2 objects; distinct by (program, grouping)")
ASSUMPTIONS = ["x86-64, static non-PIE final link, no archives or shared objects inside the combined part",
               "GOT-forming relocation sites (GOTPCREL*, GOTTPOFF) are covered by the native run only, not by the per-site image comparison"]

M64 = (1 << 64) - 1

START_C = r"""
typedef unsigned long u64; typedef unsigned int u32; typedef unsigned short u16;
struct eh { unsigned char id[16]; u16 type, machine; u32 version; u64 entry, phoff, shoff; u32 flags; u16 ehsize, phentsize, phnum; };
struct ph { u32 type, flags; u64 offset, vaddr, paddr, filesz, memsz, align; };
extern struct eh __ehdr_start;
extern void (*__init_array_start[])(void); extern void (*__init_array_end[])(void);
u64 acc = 7;
static char tlsblock[1024] __attribute__((aligned(64)));
%(decls)s
static long sys3(long n, long a, long b, long c) { long r; __asm__ volatile("syscall" : "=a"(r) : "a"(n), "D"(a), "S"(b), "d"(c) : "rcx", "r11", "memory"); return r; }
void cstart(void) {
  struct ph *p = (struct ph *)((char *)&__ehdr_start + __ehdr_start.phoff);
  char *tp = tlsblock + 768;
  for (int i = 0; i < __ehdr_start.phnum; i++) if (p[i].type == 7) {
    u64 sz = (p[i].memsz + p[i].align - 1) & ~(p[i].align - 1);
    char *d = tp - sz; const char *s = (const char *)p[i].vaddr;
    for (u64 j = 0; j < p[i].filesz; j++) d[j] = s[j];
  }
  *(char **)tp = tp;
  sys3(158, 0x1002, (long)tp, 0);
  for (void (**f)(void) = __init_array_start; f < __init_array_end; f++) (*f)();
  %(calls)s
  char buf[20]; u64 v = acc; int n = 0;
  for (int i = 15; i >= 0; i--) { int d = (v >> (4 * i)) & 15; buf[n++] = d < 10 ? '0' + d : 'a' + d - 10; }
  buf[n++] = '\n';
  sys3(1, 1, (long)buf, n);
  sys3(60, acc & 0x7f, 0, 0);
}
__asm__(".globl _start\n_start:\n and $-16, %%rsp\n call cstart\n");
"""


class Prog:
    pass


def gen_program(r, quick):
    """Abstract program: list of object descriptions + source text."""
    n = r.range(3, 7)
    P = Prog()
    P.n = n + 1
    P.feat = set()
    use_common = r.chance(1, 6)
    strong_comdat = r.chance(1, 6)
    nws = r.range(1, 3)
    srcs = {}
    kinds = {}
    # weak/strong names: for each name at most one strong definer, several weak definers
    ws_defs = {}
    for m in range(nws):
        definers = [k for k in range(1, n + 1) if r.chance(1, 2)] or [r.range(1, n)]
        strong = r.choice(definers) if r.chance(2, 3) else None
        ws_defs[m] = (definers, strong)
    commons = {}
    if use_common:
        P.feat.add("common")
        for m in range(r.range(1, 2)):
            commons[m] = {k: r.choice([8, 16, 32, 64]) for k in range(1, n + 1) if r.chance(1, 2)} or {1: 16}
    ncd = r.range(1, 2)
    comdat_members = {m: [k for k in range(1, n + 1) if r.chance(1, 2)] or [1] for m in range(ncd)}
    if strong_comdat:
        P.feat.add("strong-comdat")
    strs = ["shared-string", "alpha", "beta", "wild", "partial", "relocatable", "x"]
    for k in range(1, n + 1):
        c_obj = r.chance(1, 4)
        kinds[k] = "c" if c_obj else "s"
        nxt = r.range(1, n)
        other = r.range(1, n)
        if c_obj:
            consts = [r.below(1000) for _ in range(6)]
            src = f"""
typedef unsigned long u64;
extern u64 acc; extern u64 gd_{other}[4]; extern u64 hid_helper_{k}(u64);
static u64 sq(u64 x) {{ return x * {consts[0] | 1} + {consts[1]}; }}
static u64 tw(u64 x) {{ return x ^ {consts[2]}; }}
static u64 (*const tab[2])(u64) = {{ sq, tw }};
static const char *names[] = {{ "{r.choice(strs)}", "{r.choice(strs)}", "c{k}-only" }};
static u64 sdata[4] = {{ {consts[3]}, {consts[4]}, 3, 4 }};
u64 *pd_{k} = &sdata[{r.below(4)}];
__thread u64 tc_{k} = {consts[5]};
__attribute__((constructor)) static void init_c(void) {{ acc = acc * 3 + {k}; }}
__attribute__((visibility("hidden"))) u64 hid_helper_{k}(u64 x) {{ return x + names[x % 3][0]; }}
void f_{k}(void) {{
  u64 v = tab[acc & 1](acc) + *pd_{k} + gd_{other}[1] + hid_helper_{k}(acc) + names[1][1] + tc_{k};
  tc_{k} += 1;
  switch (acc & 3) {{ case 0: v += 11; break; case 1: v ^= 0x55; break; case 2: v *= 3; break; default: v -= 7; }}
  acc = acc * 31 + v;
}}
u64 gd_{k}[4] = {{ {k}, {consts[0] + 100 * k}, {k * 7}, 9 }};
"""
            srcs[k] = src
            continue
        a = []
        w = a.append
        al_d = r.choice([1, 8, 8, 16, 32])
        al_r = r.choice([1, 4, 8, 16])
        al_t = r.choice([1, 1, 16])
        c1, c2, c3 = r.below(1 << 16), r.below(1 << 16), r.below(1 << 16)
        w(f"    .text\n    .balign {al_t}\n    .globl f_{k}\n    .type f_{k}, @function\nf_{k}:\n")
        w("    mov acc(%rip), %rax\n    imul $31, %rax, %rax\n")
        w("    add ldata+8(%rip), %rax\n")                     # section symbol + addend into .data
        w("    mov lptr(%rip), %rcx\n    add (%rcx), %rax\n")  # data pointer into .rodata (section symbol + addend)
        w("    lea lbss+40(%rip), %rcx\n    and $63, %ecx\n    add %rcx, %rax\n")
        w(f"    add gd_{other}+16(%rip), %rax\n")              # global data of another object
        w("    call lfun\n")
        for m, (definers, strong) in ws_defs.items():
            if r.chance(1, 2):
                w(f"    add ws_{m}(%rip), %rax\n")
        for m, sizes in commons.items():
            if k in sizes:
                w(f"    addq ${k}, cm_{m}(%rip)\n    add cm_{m}(%rip), %rax\n")
        for m, members in comdat_members.items():
            if k in members:
                w(f"    push %rax\n    call cd_{m}\n    pop %rcx\n    add %rcx, %rax\n")
        w(f"    mov %fs:tv_{k}@tpoff, %rcx\n    add %rcx, %rax\n    addq $1, %fs:tv_{k}@tpoff\n")
        w("    lea .LCs(%rip), %rcx\n    movzbl 1(%rcx), %ecx\n    add %rcx, %rax\n")
        weak_undef = r.chance(1, 2)
        if weak_undef:
            # a weak reference nobody satisfies: zero in the direct link, and still weak (hence still zero) after any partial link
            P.feat.add("weak-undefined")
            w("    add wk_ptr(%rip), %rax\n")
        w(f"    add $abs_{k}, %rax\n")
        w(f"    mov hp_{k}(%rip), %rcx\n    add (%rcx), %rax\n")
        w("    mov %rax, acc(%rip)\n    ret\n")
        w(f"    .size f_{k}, .-f_{k}\n")
        w(f"lfun:\n    add ${c1}, %rax\n    ret\n")
        w(f"    .globl abs_{k}\n    .set abs_{k}, {0x100 + k}\n")
        w(f"init_l:\n    mov acc(%rip), %rax\n    lea (%rax,%rax,2), %rax\n    add ${k}, %rax\n    mov %rax, acc(%rip)\n    ret\n")
        prio = r.choice(["", "", ".00100", ".00200"])
        w(f'    .section .init_array{prio},"aw",@init_array\n    .balign 8\n    .quad init_l\n')
        w(f"    .data\n    .balign {al_d}\n    .byte {k}\n    .balign 8\nldata:\n    .quad {c2}, {c3}, {k}\n")
        w("lptr:\n    .quad lro+8\n")
        if weak_undef:
            w("    .weak nowhere_weak\nwk_ptr:\n    .quad nowhere_weak\n")
        w(f"    .globl gd_{k}\n    .type gd_{k}, @object\ngd_{k}:\n    .quad {k}, {c1}, {c2 + k}, 5\n    .size gd_{k}, 32\n")
        w(f"    .globl hv_{k}\n    .hidden hv_{k}\nhv_{k}:\n    .quad {c3 + 1}\nhp_{k}:\n    .quad hv_{k}\n")
        w(f"    .section .rodata\n    .balign {al_r}\n    .byte 1\n    .balign 8\nlro:\n    .quad {c1 + 1}, {c2 + 2}, {c3 + 3}\n")
        w("    .bss\n    .balign 64\nlbss:\n    .skip 100\n")
        w(f"    .section .tdata,\"awT\",@progbits\n    .balign 8\n    .globl tv_{k}\ntv_{k}:\n    .quad {c1 ^ k}\n")
        w(f"    .section .rodata.str1.1,\"aMS\",@progbits,1\n.LCa:\n    .string \"{r.choice(strs)}\"\n.LCs:\n    .string \"{r.choice(strs)}\"\n")
        for m, (definers, strong) in ws_defs.items():
            if k in definers:
                w(f"    .data\n    .balign 8\n    .{'globl' if strong == k else 'weak'} ws_{m}\nws_{m}:\n    .quad {1000 * (m + 1) + k}\n")
        for m, sizes in commons.items():
            if k in sizes:
                w(f"    .comm cm_{m},{sizes[k]},8\n")
        for m, members in comdat_members.items():
            if k in members:
                b = "globl" if strong_comdat else "weak"
                w(f'    .section .text.cd_{m},"axG",@progbits,cd_{m},comdat\n    .{b} cd_{m}\n    .type cd_{m}, @function\ncd_{m}:\n    mov ${77 + m}, %eax\n    ret\n')
        w('    .section .note.GNU-stack,"",@progbits\n')
        srcs[k] = "".join(a)
    decls = "".join(f"extern void f_{k}(void);\n" for k in range(1, n + 1))
    order = r.shuffle(list(range(1, n + 1)))
    calls = " ".join(f"f_{k}();" for k in order + order[:2])
    srcs[0] = START_C % {"decls": decls, "calls": calls}
    kinds[0] = "c"
    P.srcs, P.kinds = srcs, kinds
    return P


def build_objects(d, P):
    """Compile, then add a global marker symbol sb_<k>_<j> at the start of every non-empty alloc section."""
    objs = []
    for k in range(P.n):
        if P.kinds[k] == "c":
            o = lu.cc_obj(d, f"o{k}", P.srcs[k], flags=["-O1", "-ffreestanding", "-fno-pic", "-fno-stack-protector", "-fno-builtin"])
        else:
            o = lu.asm_obj(d, f"o{k}", P.srcs[k])
        e = Elf(o)
        args = []
        for s in e.sections:
            if s.flags & SHF_ALLOC and s.size > 0:
                args += ["--add-symbol", f"sb_{k}_{s.index}={s.name}:0,global"]
        # same-named sections in one object would make `name:0` ambiguous
        names = [s.name for s in e.sections if s.flags & SHF_ALLOC and s.size > 0]
        if len(set(names)) != len(names):
            raise RuntimeError("duplicate section names in generated object")
        rc, so, se = lu.run(["objcopy"] + args + [o])
        if rc != 0:
            raise RuntimeError("objcopy failed: " + se)
        objs.append(o)
    return objs


# ---------------------------------------------------------------- observation helpers
HANDLED = {1: 8, 2: 4, 4: 4, 10: 4, 11: 4, 23: 4, 24: 8}


def input_view(objs):
    """Per input object: alloc sections with markers, relocations (resolved to marker-relative expectations), global defs."""
    view = []
    for k, o in enumerate(objs):
        e = Elf(o)
        syms = e.symtab()
        secs = {s.index: s for s in e.sections if s.flags & SHF_ALLOC and s.size > 0}
        rels = []
        for rs in e.sections:
            if rs.type != SHT_RELA or rs.info not in secs:
                continue
            for (off, typ, si, add) in e.relas(rs):
                y = syms[si]
                merge = y.shndx in secs and bool(secs[y.shndx].flags & SHF_MERGE)
                if merge:
                    # reference into a string-merge section: the referent is the string, wherever it ends up
                    data = e.sec_data(secs[y.shndx])
                    pos = y.value + (add if y.type == 3 else 0)
                    end = data.find(b"\0", pos) if 0 <= pos < len(data) else -1
                    exp = ("str", bytes(data[pos:end]) if end >= 0 else b"?")
                elif y.shndx in secs and (y.bind == 0):
                    exp = (f"sb_{k}_{y.shndx}", y.value)           # local / section symbol: fixed referent
                else:
                    exp = None
                rels.append({"sec": rs.info, "off": off, "type": typ, "sym": y, "addend": add, "expect": exp, "merge": merge})
        view.append({"elf": e, "secs": secs, "rels": rels, "syms": syms})
    return view


def out_index(path, view):
    """Symbol/marker index of a linked output."""
    e = Elf(path)
    addr = {}
    for y in e.symtab():
        if y.shndx != SHN_UNDEF and y.bind != 0:
            addr.setdefault(y.name, y.value)
    tls = [s for s in e.segments if s.type == 7]
    tp = 0
    tls_base = 0
    if tls:
        t = tls[0]
        tp = (t.vaddr + t.memsz + t.align - 1) & ~(t.align - 1)
        tls_base = t.vaddr
    marks = []
    for k, v in enumerate(view):
        for j, s in v["secs"].items():
            a = addr.get(f"sb_{k}_{j}")
            if a is not None:
                is_tls = bool(s.flags & SHF_TLS)
                if is_tls and a < tls_base:
                    a += tls_base          # TLS symbol values may be segment-relative: normalise to addresses
                marks.append((a, a + s.size, f"sb_{k}_{j}", is_tls))
    # COMMON symbols have no input section (so no marker): their storage is identified by the symbol itself. Where it lands in
    # .bss may differ between the direct link and the link of the -r output; what must not change is WHICH storage a site denotes.
    for y in e.symtab():
        if y.shndx != SHN_UNDEF and y.bind != 0 and y.name.startswith("cm_") and y.size:
            marks.append((y.value, y.value + y.size, y.name, False))
    return {"elf": e, "addr": addr, "marks": marks, "tp": tp, "tls_base": tls_base, "markaddr": {m[2]: m[0] for m in marks}}


def symbolize(ix, a, tls=False):
    best = None
    for lo, hi, name, is_tls in ix["marks"]:
        if is_tls != tls:
            continue
        if lo <= a < hi or (lo <= a <= hi and best is None):
            if best is None or (lo <= a < hi):
                best = (name, a - lo)
    return best if best else ("abs", a)


def site_targets(ix, view, ctx=None):
    """{(obj, sec, off): symbolised S} for every handled relocation site of every input object; plus byte-compare failures."""
    e = ix["elf"]
    out = {}
    bad_bytes = []
    defined = {y.name for v in view for y in v["syms"] if y.bind != 0 and y.shndx != SHN_UNDEF}
    for k, v in enumerate(view):
        for j, s in v["secs"].items():
            fbase = ix["markaddr"].get(f"sb_{k}_{j}")
            if fbase is None:
                continue
            rels = [r for r in v["rels"] if r["sec"] == j]
            if s.name.startswith(".eh_frame"):
                continue   # .eh_frame is parsed and re-emitted by the linker: its sites move (C10's subject)
            skip_bytes = bool(s.flags & SHF_MERGE) or s.name.startswith(".eh_frame") or s.type == SHT_NOBITS
            for r in rels:
                sz = HANDLED.get(r["type"])
                if sz is None:
                    skip_bytes = True
                    continue
                if r["sym"].bind != 0 and r["sym"].name not in defined:
                    continue   # linker-defined symbol (__init_array_end, __ehdr_start ...): a section boundary, not a definition
                P = fbase + r["off"]
                try:
                    raw = e.read(P, sz)
                except Exception:
                    out[(k, j, r["off"])] = ("unmapped", P)
                    continue
                val = int.from_bytes(raw, "little", signed=True)
                t = r["type"]
                if t in (2, 4, 24):
                    S = val + P - r["addend"]
                elif t == 23:
                    S = val + ix["tp"] - r["addend"]
                else:
                    S = val - r["addend"]
                S &= M64
                y = r["sym"]
                is_tls_target = t == 23
                if r["merge"]:
                    # section symbol + A: the string at input offset A; named local: the string at st_value (addend applied afterwards)
                    T = (S + r["addend"]) & M64 if y.type == 3 else S
                    try:
                        out[(k, j, r["off"])] = ("str", e.cstr_at(T, 64))
                    except Exception:
                        out[(k, j, r["off"])] = ("str-unmapped", T)
                    continue
                if y.shndx == SHN_UNDEF and y.bind == 2 and val == 0 and t not in (2, 4, 24):
                    out[(k, j, r["off"])] = ("undef-weak", 0)
                elif is_tls_target:
                    out[(k, j, r["off"])] = symbolize(ix, S, tls=True)
                else:
                    out[(k, j, r["off"])] = symbolize(ix, S)
            if not skip_bytes:
                inp = bytearray(v["elf"].sec_data(s))
                try:
                    got = bytearray(e.read(fbase, s.size))
                except Exception:
                    bad_bytes.append((k, s.name, "unmapped"))
                    continue
                for r in rels:
                    sz = HANDLED[r["type"]]
                    inp[r["off"]:r["off"] + sz] = b"\0" * sz
                    got[r["off"]:r["off"] + sz] = b"\0" * sz
                if inp != got:
                    bad_bytes.append((k, s.name, "bytes differ"))
    return out, bad_bytes


def check_r_output(part, view, lo, hi):
    """Every relocation of every grouped input object must reappear in the -r output at base+offset against the same referent."""
    e = Elf(part)
    syms = e.symtab()
    byname = {}
    for y in syms:
        byname.setdefault(y.name, y)
    out_rels = {}
    for rs in e.sections:
        if rs.type == SHT_RELA:
            for (off, typ, si, add) in e.relas(rs):
                out_rels.setdefault((rs.info, off), []).append((typ, syms[si] if si < len(syms) else None, add, si))
    problems = []
    bases = {}
    for k in range(lo, hi):
        v = view[k]
        for j, s in v["secs"].items():
            m = byname.get(f"sb_{k}_{j}")
            if m is None or m.shndx in (SHN_UNDEF,):
                problems.append(f"marker sb_{k}_{j} ({s.name}) missing from -r output")
                continue
            bases[(k, j)] = (m.shndx, m.value)
    for k in range(lo, hi):
        v = view[k]
        for r in v["rels"]:
            if (k, r["sec"]) not in bases:
                continue
            osec, base = bases[(k, r["sec"])]
            cands = out_rels.get((osec, base + r["off"]), [])
            y = r["sym"]
            ok = False
            why = "no relocation at this offset"
            for (typ, oy, add, si) in cands:
                if typ != r["type"]:
                    why = f"type {typ} != {r['type']}"
                    continue
                if oy is None or si == 0:
                    why = "symbol index 0"
                    continue
                if y.bind == 0 and y.shndx in v["secs"]:
                    # local / section symbol: S+A must be the same place: section base + st_value + addend
                    tsec, tbase = bases.get((k, y.shndx), (None, None))
                    if oy.shndx == tsec and oy.value + add == tbase + y.value + r["addend"]:
                        ok = True
                    else:
                        why = f"local target moved: got sec {oy.shndx} value+addend {oy.value + add}, want sec {tsec} {tbase}+{y.value}+{r['addend']}"
                elif y.bind == 0:
                    ok = True  # local in a non-alloc / empty section: not tracked
                else:
                    if oy.name == y.name and add == r["addend"]:
                        ok = True
                    else:
                        why = f"global target {y.name}+{r['addend']} became {oy.name}+{add}"
            if not ok:
                problems.append(f"obj {k} sec {v['secs'][r['sec']].name}+0x{r['off']:x} type {r['type']} -> {y.name or 'section'}: {why}")
    return problems, bases, e


def strength_of(y, e):
    if y.shndx == SHN_COMMON:
        return "c", y.size
    if y.bind == 2:
        return "w", 0
    if y.bind == 10:
        return "u", 0
    return "s", 0


def model_request(view, lo, hi, names_map, gnames):
    toks = ["part", str(lo), str(hi - lo)]
    for k, v in enumerate(view):
        toks.append("O")
        for j in sorted(v["secs"]):
            s = v["secs"][j]
            nm = names_map.setdefault(s.name, len(names_map) + 1)
            toks.append(f"S:{nm}:{max(s.align, 1).bit_length() - 1}:{s.size}")
        for y in v["syms"]:
            if y.bind in (1, 2, 10) and y.shndx != SHN_UNDEF and not y.name.startswith("sb_") and y.type != 6 and y.shndx != 0xFFF1:
                if y.shndx != SHN_COMMON and y.shndx not in v["secs"]:
                    continue
                st, sz = strength_of(y, v["elf"])
                comdat = 0
                if y.shndx != SHN_COMMON and v["elf"].sections[y.shndx].flags & 0x200:
                    comdat = 1
                g = gnames.setdefault(y.name, len(gnames) + 1)
                toks.append(f"D:{g}:{st}:{sz}:{comdat}")
    return " ".join(toks)


def run_prog(path):
    rc, out, err = lu.run_native(path, timeout=10)
    return (rc, out)


def classify(P, lo, hi, stage, text):
    """Known-finding classes of wild's -r (see known_findings.json)."""
    t = text.lower()
    if stage == "r-output" and "symbol index 0" in t:
        names = set(x.split(":")[0].strip() for x in text.split("-> ")[1:])
        if names and all(n.startswith("cm_") for n in names):
            return "r-drops-common-symbols"
        if names and all(n.startswith("__") or n.startswith("cm_") for n in names) and lo == 0:
            return "r-drops-reference-to-linker-defined-symbol"
    if lo == 0 and ("unsupported absolute relocation" in t or "undefined symbol" in t or stage == "run"):
        return "r-drops-reference-to-linker-defined-symbol"
    if "common" in P.feat and ("undefined symbol cm_" in t or "unsupported absolute relocation" in t):
        return "r-drops-common-symbols"
    if "strong-comdat" in P.feat and "duplicate symbol" in t and "cd_" in t:
        return "r-discards-comdat-groups"
    return None


def run(ctx):
    r = ctx.rng
    nprog = 30 if ctx.quick else 400
    reqs, impl_ans, meta = [], [], []
    for pi in range(nprog):
        P = gen_program(r.fork(), ctx.quick)
        d = os.path.join(ctx.scratch, f"p{pi}")
        os.makedirs(d, exist_ok=True)
        try:
            objs = build_objects(d, P)
        except RuntimeError as ex:
            ctx.count("gen", "build-failed")
            ctx.sample({"build-failed": str(ex)[:300]})
            continue
        view = input_view(objs)
        for f in sorted(P.feat) or ["plain"]:
            ctx.count("feature", f)
        base_args = ["--eh-frame-hdr", "-o"]
        A = os.path.join(d, "direct.wild")
        rcA, _, eA = lu.link("wild", base_args + [A] + objs, cwd=d)
        D = os.path.join(d, "direct.ld")
        rcD, _, eD = lu.link("ld", base_args + [D] + objs, cwd=d)
        if rcA != 0 or rcD != 0:
            ctx.count("direct", "link-failed")
            if rcA != 0 and rcD == 0:
                ctx.sample({"direct wild link failed (not a C27 matter)": eA[:300]})
            continue
        resA, resD = run_prog(A), run_prog(D)
        if resA != resD or resA[0] < 0:
            ctx.count("direct", "wild-vs-ld-differ")
            ctx.sample({"direct links behave differently (not a C27 matter)": [resA, resD]})
            continue
        ctx.count("direct", "ok")
        ixA = out_index(A, view)
        tgtA, badA = site_targets(ixA, view)
        for (k, j, off), got in tgtA.items():
            exp = next((x["expect"] for x in view[k]["rels"] if x["sec"] == j and x["off"] == off), None)
            if exp is not None and got != exp and not got[0] == "undef-weak":
                ctx.count("direct", "local-site-unexpected")
                ctx.sample({"direct link: local site does not point at its own section (check artefact?)": [k, j, off, got, exp]})
        for gi in range(2):
            n = P.n
            if r.chance(1, 8):
                lo = 0
                hi = r.range(1, n - 1)
            else:
                lo = r.range(1, n - 1)
                hi = r.range(lo + 1, n) if lo + 1 <= n else n
                if hi - lo == 1 and r.chance(2, 3) and lo + 2 <= n:
                    hi = lo + 2
            key = hashlib.sha256((P.srcs[0] + "".join(P.srcs[k] for k in range(1, n)) + f"{lo}:{hi}").encode()).hexdigest()[:10]
            ctx.count("group-size", str(hi - lo))
            ctx.count("group-start", "with-start-object" if lo == 0 else "inner")
            ys = objs[lo:hi]
            part = os.path.join(d, f"part{gi}.wild.o")
            partld = os.path.join(d, f"part{gi}.ld.o")
            B = os.path.join(d, f"via{gi}.wild")
            C = os.path.join(d, f"via{gi}.ld")
            cmds = {"direct": f"wild {' '.join(base_args)} direct.wild " + " ".join(os.path.basename(o) for o in objs),
                    "partial": f"wild -r -o part.o " + " ".join(os.path.basename(o) for o in ys),
                    "final": f"wild {' '.join(base_args)} via " + " ".join([os.path.basename(o) for o in objs[:lo]] + ["part.o"] + [os.path.basename(o) for o in objs[hi:]])}

            def violation(stage, what, text, extra=None):
                cls = classify(P, lo, hi, stage, text)
                ctx.cov["impl_oracle_failures"] += 1
                if cls:
                    ctx.count("known-class", cls)
                    ctx.violation(cls, what, {"stage": stage, "detail": text[:600], "commands": cmds})
                    return
                keep = os.path.join(ctx.replay_dir(), f"{key}")
                shutil.copytree(d, keep, dirs_exist_ok=True)
                ctx.violation(f"c27:{stage}:{key}", what, {"stage": stage, "detail": text[:1500], "dir": keep, "group": [lo, hi], "commands": cmds,
                                                          "sources": [f"o{k}.{'c' if P.kinds[k] == 'c' else 's'}" for k in range(n)], "extra": extra})

            ctx.note_case((key,), hi - lo >= 2)
            # the grouping of files into work groups depends on the thread count (with --threads=1 several objects share a group)
            rthreads = [["--threads=1"], [], ["--threads=1"], ["--threads=2"]][(lo + hi + len(ys)) % 4]
            rc, _, e1 = lu.link("wild", rthreads + ["-r", "-o", part] + ys, cwd=d)
            if rc != 0:
                violation("partial", "wild -r fails on objects that link directly", e1)
                continue
            # oracle side: GNU ld -r of the same group, then wild's final link
            rcl, _, el = lu.link("ld", ["-r", "-o", partld] + ys, cwd=d)
            resC = None
            if rcl == 0:
                rc2, _, e2 = lu.link("wild", base_args + [C] + objs[:lo] + [partld] + objs[hi:], cwd=d)
                if rc2 == 0:
                    resC = run_prog(C)
                else:
                    resC = ("link-failed", e2[:300])
            # structure of wild's -r output against the inputs
            problems, bases, pe = check_r_output(part, view, lo, hi)
            # model correspondence: placement, kept definitions
            names_map, gnames = {}, {}
            req = model_request(view, lo, hi, names_map, gnames)
            inv_g = {v: k for k, v in gnames.items()}
            inv_s = {v: k for k, v in names_map.items()}
            btoks = []
            for k in range(lo, hi):
                for idx, j in enumerate(sorted(view[k]["secs"])):
                    b = bases.get((k, j))
                    btoks.append(f"{k}.{idx}:{b[1] if b else '?'}")
            stoks = []
            seen = []
            for k in range(lo, hi):
                for j in sorted(view[k]["secs"]):
                    nm = view[k]["secs"][j].name
                    if nm not in seen:
                        seen.append(nm)
            for nm in seen:
                s = pe.sec(nm)
                stoks.append(f"{names_map[nm]}:{s.size if s else '?'}:{(max(s.align, 1).bit_length() - 1) if s else '?'}")
            # which definition did -r keep: map (section, value) back to the input object through the bases
            psyms = {y.name: y for y in pe.symtab() if y.bind != 0}

            def owner_in_part(y):
                for (k, j), (osec, b) in bases.items():
                    sz = view[k]["secs"][j].size
                    if osec == y.shndx and b <= y.value < b + sz:
                        return k
                return None

            gtoks = []
            ys_names = sorted({gnames[y.name] for k in range(lo, hi) for y in view[k]["syms"] if y.name in gnames and y.bind != 0 and y.shndx != SHN_UNDEF and (y.shndx == SHN_COMMON or y.shndx in view[k]["secs"])})
            for g in ys_names:
                y = psyms.get(inv_g[g])
                if y is None or y.shndx == SHN_UNDEF:
                    gtoks.append(f"{g}:-:-")
                elif y.shndx == SHN_COMMON:
                    gtoks.append(f"{g}:c:c")
                else:
                    o = owner_in_part(y)
                    gtoks.append(f"{g}:{o if o is not None else '?'}:{strength_of(y, pe)[0]}")
            rcB, _, eB = lu.link("wild", base_args + [B] + objs[:lo] + [part] + objs[hi:], cwd=d)
            resB = run_prog(B) if rcB == 0 else None

            def final_owner(ix):
                toks = []
                for g in sorted(inv_g):
                    a = ix["addr"].get(inv_g[g])
                    if a is None:
                        toks.append(f"{g}:-")
                        continue
                    nm, off = symbolize(ix, a)
                    toks.append(f"{g}:{nm.split('_')[1] if nm.startswith('sb_') else 'c'}")
                return ",".join(toks)

            fA = final_owner(ixA)
            impl = f"B={','.join(btoks)} S={','.join(stoks)} G={','.join(gtoks)} F={fA}"
            ixB = None
            if rcB == 0:
                ixB = out_index(B, view)
                impl += f" V={final_owner(ixB)}"
            else:
                impl += " V=link-failed"
            reqs.append(req)
            impl_ans.append(impl)
            meta.append((P, lo, hi, key, d, cmds))
            if problems:
                violation("r-output", "relocation/symbol of an input object not carried over correctly into wild's -r output", "; ".join(problems[:6]), extra=problems[:40])
            if rcB != 0:
                violation("final", "final link of wild's -r output fails although the direct link succeeds", eB)
                continue
            if resB != resA:
                violation("run", f"program behaves differently after -r: direct {resA} vs partial {resB} (GNU ld -r then wild: {resC})", f"direct={resA} via={resB}")
                continue
            if resC is not None and resC != resA:
                ctx.cov["impl_oracle_failures"] += 1
                keep = os.path.join(ctx.replay_dir(), f"{key}-ldr")
                shutil.copytree(d, keep, dirs_exist_ok=True)
                ctx.violation(f"c27:ldr-then-wild:{key}", f"wild's link of GNU ld's -r output behaves differently from the direct link: {resC} vs {resA}",
                              {"dir": keep, "group": [lo, hi], "commands": cmds})
            ctx.count("outcome", "same-behaviour")
            # abstract images
            tgtB, badB = site_targets(ixB, view)
            diffs = [(s, tgtA[s], tgtB.get(s)) for s in tgtA if tgtB.get(s) != tgtA[s]]
            if diffs or badB:
                violation("image", "relocation site denotes a different definition/offset (or section bytes differ) after -r",
                          f"site diffs (obj,sec,off,direct,via): {diffs[:5]} byte diffs: {badB[:5]}", extra={"diffs": diffs[:50], "bytes": badB})
            ctx.count("sites-compared", "n", len(tgtA))
        if not ctx.violations:
            shutil.rmtree(d, ignore_errors=True)
    # model side
    model = ctx.model_eval(reqs) if reqs else []

    def canon(m, i):
        """Keep the model fields that the implementation answer has (V only if linked)."""
        return m

    model2 = []
    for m, a in zip(model, impl_ans):
        parts = dict(x.split("=", 1) for x in m.split(" "))
        ap = dict(x.split("=", 1) for x in a.split(" "))
        # the model's kept-definition of a COMMON is by object; the implementation answer says only "common kept"
        g = []
        for t in parts["G"].split(","):
            if t.endswith(":c"):
                n0 = t.split(":")[0]
                g.append(f"{n0}:c:c")
            else:
                g.append(t)
        parts["G"] = ",".join(x for x in g if x)
        # a COMMON winner is storage allocated by the final link: the implementation answer says only "c"
        strength = {}
        oi = -1
        for tok in reqs[len(model2)].split(" ")[3:]:
            if tok == "O":
                oi += 1
            elif tok.startswith("D:"):
                f = tok.split(":")
                strength[(oi, f[1])] = f[2]
        for fld in ("F", "V"):
            toks = []
            for t in parts[fld].split(","):
                if ":" in t:
                    n0, o0 = t.split(":")
                    if o0.isdigit() and strength.get((int(o0), n0)) == "c":
                        t = f"{n0}:c"
                toks.append(t)
            parts[fld] = ",".join(toks)
        if ap.get("V") == "link-failed":
            parts["V"] = "link-failed"
        model2.append(" ".join(f"{k}={parts[k]}" for k in ("B", "S", "G", "F", "V")))
    dis, _, _ = ctx.differential("part", reqs, impl_out=impl_ans, model_out=model2)
    known_classes = {v.key for v in ctx.violations}
    for (l, a, b) in dis:
        i = reqs.index(l)
        P, lo, hi, key, d, cmds = meta[i]
        ap = dict(x.split("=", 1) for x in a.split(" "))
        bp = dict(x.split("=", 1) for x in b.split(" "))
        fields = [k for k in ("B", "S", "G", "F", "V") if ap.get(k) != bp.get(k)]
        ctx.count("model-disagreement-field", "+".join(fields))
