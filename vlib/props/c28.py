"""C28 - Optional transformations don't change program behaviour.

Differential tie: generated C (+ a little inline asm) programs that print checksums of data reached through
pointers, strings (mergeable sections), TLS (all access models the compiler picks), function pointers, IFUNCs,
static constructors and a shared library; each linked by wild under the option lattice
{relax, no-relax} x {string merging on/off} x {pack-relative-relocs on/off} x {hash-style gnu/sysv/both} x
{build-id none/fast} and as static / static-PIE / PIE / dynamic non-PIE where the program allows; run natively;
stdout + exit status must be identical across all variants (and equal to the GNU ld link's).
"""
import os
import shutil

from .. import c01c38_common as cc
from .. import linkutil as lu

NEEDS_WILD = True
LEAN_MODULES = ["WildModel.Props.C28"]
THEOREMS = [
    "Wild.C28.relr_invariant_site",
    "Wild.C28.relr_invariant_abs",
    "Wild.C28.relr_invariant_got",
    "Wild.C28.output_kind_invariant_abs",
    "Wild.C28.output_kind_invariant_got",
    "Wild.C28.hash_style_invariant",
    "Wild.C28.relr_roundtrip",
    "Wild.C28.string_merge_invariant",
    "Wild.C28.string_merge_split_invariant",
    "Wild.C28.relax_invariant_rex_mov",
]
# The corollary file proves per-toggle invariance of each property's own observable (C01 run-time words, C07 strings, C08 lookups,
# C09 RELR decoding, C14 rewrites) but there is no single `meaning` function spanning the five models, and build-id has no model:
# the claim for whole programs rests on the differential over the option lattice => translation validation of each produced output
# against its siblings and against GNU ld's, backed by the per-toggle theorems.
LEVEL = "translation_validation"
TECHNIQUE = ("differential execution of generated programs over wild's option lattice and output kinds (each output validated against all sibling "
             "outputs and GNU ld's), + kernel-checked per-toggle invariance corollaries of C01/C07/C08/C09/C14 in Props/C28.lean")
TRUSTED = [
    "Props/C28.lean: corollaries only; they inherit the models and ties of C01 (RelocValue), C07 (StrMerge), C08 (Hash), C09 (Relr), C14 (X86Relax)",
    "hypothesis (not proved): the program does not read .note.gnu.build-id; every observation of the program is one of the reference kinds covered by those properties",
    "gcc 12 as compiler of the generated programs, GNU ld 2.40 as reference linker, native execution on the host kernel + glibc",
]
RULE = ("generated programs x option combinations (quick: 6 combinations x up to 4 output kinds; thorough: all 48 x output kinds); a case = one linked+executed variant; "
        "non-trivial: all; distinct by (program text, option tuple, output kind)")
ASSUMPTIONS = ["x86-64 native execution only", "programs avoid printing raw addresses (they print differences, checksums and comparisons)"]


def gen_program(r, idx):
    """-> (main.c, lib.c or None, uses_lib)"""
    nstr = r.range(3, 7)
    words = ["alpha", "beta", "gamma", "delta", "alphabet", "bet", "a", "", "gammadelta", "ta", "omega", "mega"]
    strs = [r.choice(words) + r.choice(["", "!", "_x", "\\n"]) for _ in range(nstr)]
    narr = r.range(2, 5)
    uses_lib = idx % 3 != 2
    tls_n = r.range(1, 3)
    L = []
    L.append("#include <stdio.h>\n#include <string.h>\n#include <stdint.h>")
    L.append("static unsigned long h; static void mix(unsigned long v){ h = (h ^ v) * 1099511628211UL + 7; }")
    L.append("static void mixs(const char *s){ while (*s) mix((unsigned char)*s++); mix(255); }")
    for i, s in enumerate(strs):
        L.append(f'const char *const s{i} = "{s}"; static const char sa{i}[] = "{s}";')
    L.append("const char *const *const strtab[] = {" + ", ".join(f"&s{i}" for i in range(nstr)) + "};")
    for i in range(narr):
        n = r.range(1, 9)
        vals = ", ".join(str(r.range(0, 1000)) for _ in range(n))
        L.append(f"int arr{i}[{n}] = {{{vals}}}; int *parr{i} = &arr{i}[{r.below(n)}]; const int carr{i}[{n}] = {{{vals}}}; const int *const pc{i} = &carr{i}[{r.below(n)}];")
    for i in range(tls_n):
        L.append(f"__thread int tl{i} = {r.range(1, 99)}; static __thread int stl{i}; __thread char tbuf{i}[{r.choice([1, 3, 8, 17])}];")
    L.append("static int f0(int x){ return x + 1; } static int f1(int x){ return x * 3; } int f2(int x){ return x - 5; }")
    L.append("int (*const ftab[])(int) = { f0, f1, f2 }; int (*volatile fp)(int) = f2;")
    L.append("static int ifimpl(int x){ return x ^ 0x55; } static void *ifres(void){ return (void*)ifimpl; } int ifn(int) __attribute__((ifunc(\"ifres\")));")
    L.append("int (*volatile ifp)(int) = ifn;")
    L.append("static int ctor_ran; __attribute__((constructor)) static void ctor(void){ ctor_ran = 41; }")
    L.append("extern char __executable_start, etext, edata, end; ")
    L.append("__attribute__((weak)) extern int undefined_weak_sym; __attribute__((weak)) int weak_fn(void);")
    if uses_lib:
        L.append("extern int lib_data[4]; extern int lib_fn(int); extern const char *lib_str(void); extern __thread int lib_tls; extern int *lib_tls_addr(void); extern int lib_cb(int (*)(int), int);")
    L.append("int main(void){")
    L.append(f"    for (unsigned i = 0; i < {nstr}; i++) mixs(*strtab[i]);")
    for i in range(nstr):
        L.append(f"    mixs(sa{i}); mix(strcmp(s{i}, sa{i}) == 0);")
    # suffix sharing must not be observable except through pointer equality, which we do not print
    for i in range(narr):
        L.append(f"    mix(*parr{i}); mix(*pc{i}); mix(parr{i} - arr{i}); mix(pc{i} - carr{i}); arr{i}[0] += 3; mix(arr{i}[0]);")
    for i in range(tls_n):
        L.append(f"    mix(tl{i}); stl{i} += tl{i} + 2; mix(stl{i}); tbuf{i}[0] = 9; mix(tbuf{i}[0]); mix((uintptr_t)&tl{i} % __alignof__(int));")
    L.append("    for (int i = 0; i < 3; i++) mix(ftab[i](i + 10)); mix(fp(100)); mix(fp == f2);")
    L.append("    mix(ifn(7)); mix(ifp(9)); mix(ifp == ifn);")
    L.append("    mix(ctor_ran); mix(&undefined_weak_sym == 0); mix(weak_fn == 0);")
    L.append("    mix(&etext > &__executable_start); mix(&end >= &edata);")
    if uses_lib:
        L.append("    mix(lib_data[1]); lib_data[2] = 77; mix(lib_fn(5)); mixs(lib_str()); mix(lib_tls); lib_tls = 5; mix(*lib_tls_addr()); mix(lib_tls_addr() == &lib_tls);")
        L.append("    mix(lib_cb(f2, 50)); mix(lib_cb(ifn, 3));")
    L.append('    printf("%lx\\n", h); return (int)(h & 63); }')
    lib = None
    if uses_lib:
        lib = ("int lib_data[4] = {11, 22, 33, 44}; __thread int lib_tls = 3; static const char ls[] = \"libstring\";\n"
               "int lib_fn(int x){ return x + lib_data[2]; } const char *lib_str(void){ return ls; } int *lib_tls_addr(void){ return &lib_tls; }\n"
               "int lib_cb(int (*f)(int), int v){ return f(v) + 1; }\n")
    return "\n".join(L) + "\n", lib, uses_lib


def option_lattice(quick):
    full = []
    for relax in ("--relax", "--no-relax"):
        for sm in ("", "--no-string-merge"):
            for relr in ("-z pack-relative-relocs", "-z nopack-relative-relocs"):
                for hs in ("gnu", "sysv", "both"):
                    for bid in ("none", "fast"):
                        full.append((relax, sm, relr, hs, bid))
    if not quick:
        return full
    return [full[0], full[-1],
            ("--no-relax", "", "-z pack-relative-relocs", "sysv", "fast"),
            ("--relax", "--no-string-merge", "-z nopack-relative-relocs", "both", "none"),
            ("--no-relax", "--no-string-merge", "-z pack-relative-relocs", "gnu", "none"),
            ("--relax", "", "-z nopack-relative-relocs", "sysv", "fast")]


def opt_args(opt):
    relax, sm, relr, hs, bid = opt
    a = [relax] + ([sm] if sm else []) + relr.split() + [f"--hash-style={hs}", f"--build-id={bid}"]
    return a


def run(ctx):
    r = ctx.rng
    nprog = 5 if ctx.quick else 15
    lattice = option_lattice(ctx.quick)
    for i in range(nprog):
        main_c, lib_c, uses_lib = gen_program(r.fork(), i)
        d = os.path.join(ctx.scratch, f"p{i}")
        os.makedirs(d, exist_ok=True)
        results = {}
        try:
            objs = {"pic": lu.cc_obj(d, "main_pic", main_c, ["-fPIE", "-O1"]), "nopic": lu.cc_obj(d, "main_nopic", main_c, ["-fno-pic", "-fno-pie", "-O1"])}
            libs = []
            if uses_lib:
                lo = lu.cc_obj(d, "lib", lib_c, ["-fPIC", "-O1"])
                so = os.path.join(d, "libl.so")
                rc, o, e = cc.link_so("ld", [lo], so)
                if rc != 0:
                    raise RuntimeError("ld -shared: " + e)
                libs = [so]
        except RuntimeError as ex:
            ctx.broken.append(f"generated program {i} does not build: {str(ex)[:300]}")
            continue
        kinds = [("pie", "pic"), ("dyn", "nopic")] + ([] if uses_lib else [("static", "nopic"), ("static-pie", "pic")])
        # reference: GNU ld, default options, per output kind (a few observations legitimately depend on the output kind even with
        # GNU ld, e.g. IFUNC pointer equality in PIE)
        refs = {}
        for (kind, ob) in kinds:
            rc, o, e = cc.link_c("ld", kind, [objs[ob]], os.path.join(d, "ref-" + kind), libs=libs)
            if rc != 0:
                ctx.broken.append(f"GNU ld cannot link generated program {i} as {kind}: {e[:200]}")
                continue
            rr = cc.run_exe(os.path.join(d, "ref-" + kind), libdir=d)
            refs[kind] = (rr[0], rr[1])
            if rr[0] < 0 or rr[0] > 63:
                ctx.broken.append(f"generated program {i} crashes when linked by GNU ld as {kind}: rc={rr[0]}")
        kinds = [k for k in kinds if k[0] in refs]
        for (kind, ob) in kinds:
            for k, opt in enumerate(lattice):
                if ctx.quick and kind in ("static", "static-pie") and k >= 3:
                    continue
                out = os.path.join(d, f"w-{kind}-{k}")
                rc, o, e = cc.link_c("wild", kind, [objs[ob]], out, libs=libs, extra=opt_args(opt))
                ctx.note_case((main_c, opt, kind))
                ctx.count("kind", kind)
                ctx.count("relax", opt[0])
                ctx.count("hash", opt[3])
                if rc != 0:
                    results[(kind, opt)] = ("link-fail", e.strip()[:300])
                    ctx.count("result", "link-fail")
                    continue
                rr = cc.run_exe(out, libdir=d)
                results[(kind, opt)] = (rr[0], rr[1])
                ctx.count("result", "same-as-ld" if (rr[0], rr[1]) == refs[kind] else "differs")
                os.unlink(out)
        bad = {k: v for k, v in results.items() if v != refs[k[0]]}
        if bad:
            ctx.cov["impl_oracle_failures"] += len(bad)
            keep = os.path.join(ctx.replay_dir(), f"c28-p{i}")
            os.makedirs(keep, exist_ok=True)
            for fn in os.listdir(d):
                if fn.endswith((".c", ".o", ".so")):
                    shutil.copy(os.path.join(d, fn), keep)
            # group by the smallest description: which toggles are common to all failing variants
            for (kind, opt), v in sorted(bad.items())[:6]:
                ref = refs[kind]
                same_kind_ok = [o2 for (k2, o2), v2 in results.items() if k2 == kind and v2 == ref]
                differing = ""
                if same_kind_ok:
                    best = min(same_kind_ok, key=lambda o2: sum(a != b for a, b in zip(o2, opt)))
                    differing = ",".join(b for a, b in zip(best, opt) if a != b)
                key = f"behaviour:{kind}:{differing or 'all-options'}:{'link' if v[0] == 'link-fail' else 'run'}"
                ctx.violation(key, f"program {i} as {kind} with {' '.join(opt_args(opt))}: {('link fails: ' + v[1]) if v[0] == 'link-fail' else f'exit {v[0]} stdout {v[1]!r}'}; "
                              f"GNU ld / sibling variants: exit {ref[0]} stdout {ref[1]!r}" + (f"; nearest passing variant differs in: {differing}" if differing else ""),
                              {"dir": keep, "kind": kind, "options": opt_args(opt), "observed": v, "expected": ref,
                               "how": "link main_pic.o/main_nopic.o (+ libl.so) with vlib/c01c38_common.link_c(kind, extra=options) and run with LD_LIBRARY_PATH=dir"})
        shutil.rmtree(d, ignore_errors=True)
