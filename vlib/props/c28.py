"""C28 - Optional transformations don't change program behaviour.

Differential tie: generated C (+ a little inline asm) programs that print checksums of data reached through
pointers, strings (mergeable sections), TLS (all access models the compiler picks, plus an object compiled -mtls-dialect=gnu2 -fPIC whose
TLS-descriptor sequences on global, static, main-defined and library-defined __thread variables every variant contains), function pointers, IFUNCs,
static constructors and a shared library; each linked by wild under the option lattice
{relax, no-relax} x {string merging on/off} x {pack-relative-relocs on/off} x {hash-style gnu/sysv/both} x
{build-id none/fast} and as static / static-PIE / PIE / dynamic non-PIE where the program allows; run natively;
stdout + exit status must be identical across all variants (and equal to the GNU ld link's).
"""
import os
import shutil

from .. import c01c38_common as cc
from .. import elfread
from .. import linkutil as lu

NEEDS_WILD = True
LEAN_MODULES = ["WildModel.Props.C28"]
THEOREMS = [
    "Wild.C28.relr_invariant_site",
    "Wild.C28.relr_invariant_abs",
    "Wild.C28.relr_invariant_got",
    "Wild.C28.output_kind_invariant_abs",
    "Wild.C28.output_kind_invariant_got",
    "Wild.C28.hash_style_invariant",
    "Wild.C28.relr_roundtrip",
    "Wild.C28.string_merge_invariant",
    "Wild.C28.string_merge_split_invariant",
    "Wild.C28.relax_invariant_rex_mov",
]
# The corollary file proves per-toggle invariance of each property's own observable (C01 run-time words, C07 strings, C08 lookups,
# C09 RELR decoding, C14 rewrites) but there is no single `meaning` function spanning the five models, and build-id has no model:
# the claim for whole programs rests on the differential over the option lattice => translation validation of each produced output
# against its siblings and against GNU ld's, backed by the per-toggle theorems.
LEVEL = "translation_validation"
TECHNIQUE = ("differential execution of generated programs over wild's option lattice and output kinds (each output validated against all sibling "
             "outputs and GNU ld's), + kernel-checked per-toggle invariance corollaries of C01/C07/C08/C09/C14 in Props/C28.lean")
TRUSTED = [
    "Props/C28.lean: corollaries only; they inherit the models and ties of C01 (RelocValue), C07 (StrMerge), C08 (Hash), C09 (Relr), C14 (X86Relax)",
    "hypothesis (not proved): the program does not read .note.gnu.build-id; every observation of the program is one of the reference kinds covered by those properties",
    "gcc 12 as compiler of the generated programs, GNU ld 2.40 as reference linker, native execution on the host kernel + glibc",
]
RULE = ("generated programs x option combinations (quick: 6 combinations x up to 4 output kinds; thorough: all 48 x output kinds); a case = one linked+executed variant; "
        "non-trivial: all; distinct by (program text, option tuple, output kind)")
ASSUMPTIONS = ["x86-64 native execution only", "programs avoid printing raw addresses (they print differences, checksums and comparisons)"]


def gen_program(r, idx):
    """-> (main.c, lib.c or None, uses_lib)"""
    nstr = r.range(3, 7)
    words = ["alpha", "beta", "gamma", "delta", "alphabet", "bet", "a", "", "gammadelta", "ta", "omega", "mega"]
    strs = [r.choice(words) + r.choice(["", "!", "_x", "\\n"]) for _ in range(nstr)]
    narr = r.range(2, 5)
    uses_lib = idx % 3 != 2
    tls_n = r.range(1, 3)
    L = []
    L.append("#include <stdio.h>\n#include <string.h>\n#include <stdint.h>")
    L.append("static unsigned long h; static void mix(unsigned long v){ h = (h ^ v) * 1099511628211UL + 7; }")
    L.append("static void mixs(const char *s){ while (*s) mix((unsigned char)*s++); mix(255); }")
    for i, s in enumerate(strs):
        L.append(f'const char *const s{i} = "{s}"; static const char sa{i}[] = "{s}";')
    L.append("const char *const *const strtab[] = {" + ", ".join(f"&s{i}" for i in range(nstr)) + "};")
    for i in range(narr):
        n = r.range(1, 9)
        vals = ", ".join(str(r.range(0, 1000)) for _ in range(n))
        L.append(f"int arr{i}[{n}] = {{{vals}}}; int *parr{i} = &arr{i}[{r.below(n)}]; const int carr{i}[{n}] = {{{vals}}}; const int *const pc{i} = &carr{i}[{r.below(n)}];")
    for i in range(tls_n):
        L.append(f"__thread int tl{i} = {r.range(1, 99)}; static __thread int stl{i}; __thread char tbuf{i}[{r.choice([1, 3, 8, 17])}];")
    L.append("static int f0(int x){ return x + 1; } static int f1(int x){ return x * 3; } int f2(int x){ return x - 5; }")
    L.append("int (*const ftab[])(int) = { f0, f1, f2 }; int (*volatile fp)(int) = f2;")
    L.append("static int ifimpl(int x){ return x ^ 0x55; } static void *ifres(void){ return (void*)ifimpl; } int ifn(int) __attribute__((ifunc(\"ifres\")));")
    L.append("int (*volatile ifp)(int) = ifn;")
    L.append("static int ctor_ran; __attribute__((constructor)) static void ctor(void){ ctor_ran = 41; }")
    L.append("extern char __executable_start, etext, edata, end; ")
    L.append("__attribute__((weak)) extern int undefined_weak_sym; __attribute__((weak)) int weak_fn(void);")
    if uses_lib:
        L.append("extern int lib_data[4]; extern int lib_fn(int); extern const char *lib_str(void); extern __thread int lib_tls; extern int *lib_tls_addr(void); extern int lib_cb(int (*)(int), int);")
    # TLS-descriptor code: two separate objects compiled -mtls-dialect=gnu2 -fPIC.
    #  tlsd (general-dynamic descriptors): global __thread variables defined there, in main and (when there is one) in the shared library:
    #       lea x@TLSDESC(%rip),%rax; call *x@TLSCALL(%rax) sequences that an executable link rewrites or keeps; observed through h (line 1).
    #  tlsl (local-dynamic descriptors): static __thread variables reached through the _TLS_MODULE_BASE_ descriptor + x@dtpoff; observed
    #       through a hash of their own (line 2) so that a wrong module base is told apart from everything else; the variables sit inside
    #       guarded structs so that an access that is off by less than 64 bytes cannot disturb anybody else's TLS.
    gn = r.range(2, 4)
    gv = [r.range(1, 500) for _ in range(gn)]
    sbuf = r.choice([1, 5, 16, 33])
    T = ["#include <stdint.h>",
         f"__thread int gd_a = {gv[0]}; __thread long gd_b[{gn}] = {{{', '.join(str(v) for v in gv)}}}; __thread char gd_z[{r.choice([1, 7, 64])}];",
         "extern __thread int tl0;" + (" extern __thread int lib_tls;" if uses_lib else ""),
         "int tlsd_get(void){ return gd_a * 3 + gd_z[0]; }",
         "void tlsd_bump(int v){ gd_a += v; gd_b[1] += tl0; gd_z[0] += 2;" + (" lib_tls += v;" if uses_lib else "") + " }",
         f"long tlsd_sum(void){{ long t = gd_z[0]; for (int i = 0; i < {gn}; i++) t = t * 31 + gd_b[i]; return t" + (" + lib_tls" if uses_lib else "") + "; }",
         "int *tlsd_addr(void){ return &gd_a; } int *tlsd_tl0_addr(void){ return &tl0; } long tlsd_gap(void){ return (char*)&gd_b[1] - (char*)&gd_b[0]; }",
         "unsigned tlsd_align(void){ return (unsigned)((uintptr_t)&gd_b[0] % __alignof__(long)); }"]
    tlsd = "\n".join(T) + "\n"
    T2 = ["#include <stdint.h>",
          f"static __thread struct {{ long lo[8]; int a; long z; char buf[{sbuf}]; long hi[8]; }} sd = {{ .lo = {{1, 2, 3, 4, 5, 6, 7, 8}}, .a = {gv[1]}, .z = {gv[0]}, .hi = {{9, 8, 7, 6, 5, 4, 3, 2}} }};",
          f"static __thread struct {{ long lo[8]; long z; char buf[{r.choice([1, 9, 40])}]; long hi[8]; }} sb;",
          "int tlsl_get(void){ return sd.a * 3 + (int)sb.z + (int)sd.z; }",
          f"void tlsl_bump(int v){{ sd.a ^= v; sd.buf[{sbuf - 1}] = (char)v; sb.z += sd.z + 1; sb.buf[0] += 2; }}",
          f"long tlsl_sum(void){{ long t = sd.buf[{sbuf - 1}] + sd.buf[0] + sb.z + sb.buf[0]; for (int i = 0; i < 8; i++) t = t * 31 + sd.lo[i] + sd.hi[i] + sb.lo[i] + sb.hi[i]; return t; }}",
          "long tlsl_gap(void){ return ((char*)&sd.z - (char*)&sd.a) + ((uintptr_t)&sb.z % __alignof__(long)); }"]
    tlsl = "\n".join(T2) + "\n"
    L.append("extern __thread int gd_a; extern __thread long gd_b[]; extern int tlsd_get(void); extern void tlsd_bump(int); extern long tlsd_sum(void);"
             " extern int *tlsd_addr(void); extern int *tlsd_tl0_addr(void); extern long tlsd_gap(void); extern unsigned tlsd_align(void);")
    L.append("extern __thread char tls_fill[];")
    L.append("extern int tlsl_get(void); extern void tlsl_bump(int); extern long tlsl_sum(void); extern long tlsl_gap(void);"
             " static unsigned long h2; static void mix2(unsigned long v){ h2 = (h2 ^ v) * 1099511628211UL + 11; }")
    L.append("int main(void){")
    L.append(f"    mix(tlsd_get()); mix(tlsd_sum()); tlsd_bump({r.range(1, 90)}); mix(tlsd_get()); mix(tlsd_sum()); mix(gd_a); gd_a += 4; mix(tlsd_get());")
    L.append(f"    mix(tlsd_addr() == &gd_a); mix(tlsd_tl0_addr() == &tl0); mix(tlsd_gap()); mix(tlsd_align()); gd_b[0] = {r.range(1, 77)}; tlsd_bump(3); mix(tlsd_sum());")
    L.append("    tls_fill[0] += 1; mix(tls_fill[0]);")
    L.append(f"    mix2(tlsl_get()); mix2(tlsl_sum()); tlsl_bump({r.range(1, 90)}); mix2(tlsl_get()); mix2(tlsl_sum()); mix2(tlsl_gap()); tlsl_bump(3); mix2(tlsl_sum());")
    L.append(f"    for (unsigned i = 0; i < {nstr}; i++) mixs(*strtab[i]);")
    for i in range(nstr):
        L.append(f"    mixs(sa{i}); mix(strcmp(s{i}, sa{i}) == 0);")
    # suffix sharing must not be observable except through pointer equality, which we do not print
    for i in range(narr):
        L.append(f"    mix(*parr{i}); mix(*pc{i}); mix(parr{i} - arr{i}); mix(pc{i} - carr{i}); arr{i}[0] += 3; mix(arr{i}[0]);")
    for i in range(tls_n):
        L.append(f"    mix(tl{i}); stl{i} += tl{i} + 2; mix(stl{i}); tbuf{i}[0] = 9; mix(tbuf{i}[0]); mix((uintptr_t)&tl{i} % __alignof__(int));")
    L.append("    for (int i = 0; i < 3; i++) mix(ftab[i](i + 10)); mix(fp(100)); mix(fp == f2);")
    L.append("    mix(ifn(7)); mix(ifp(9)); mix(ifp == ifn);")
    L.append("    mix(ctor_ran); mix(&undefined_weak_sym == 0); mix(weak_fn == 0);")
    L.append("    mix(&etext > &__executable_start); mix(&end >= &edata);")
    if uses_lib:
        L.append("    mix(lib_data[1]); lib_data[2] = 77; mix(lib_fn(5)); mixs(lib_str()); mix(lib_tls); lib_tls = 5; mix(*lib_tls_addr()); mix(lib_tls_addr() == &lib_tls);")
        L.append("    mix(lib_cb(f2, 50)); mix(lib_cb(ifn, 3));")
    L.append('    printf("%lx\\n%lx\\n", h, h2); return (int)(h & 63); }')
    lib = None
    if uses_lib:
        lib = ("int lib_data[4] = {11, 22, 33, 44}; __thread int lib_tls = 3; static const char ls[] = \"libstring\";\n"
               "int lib_fn(int x){ return x + lib_data[2]; } const char *lib_str(void){ return ls; } int *lib_tls_addr(void){ return &lib_tls; }\n"
               "int lib_cb(int (*f)(int), int v){ return f(v) + 1; }\n")
    return "\n".join(L) + "\n", lib, uses_lib, tlsd, tlsl


FILL_ASM = '    .section .tbss,"awT",@nobits\n    .globl tls_fill\n    .type tls_fill,@object\ntls_fill:\n    .zero %d\n    .size tls_fill, %d\n'


def option_lattice(quick):
    full = []
    for relax in ("--relax", "--no-relax"):
        for sm in ("", "--no-string-merge"):
            for relr in ("-z pack-relative-relocs", "-z nopack-relative-relocs"):
                for hs in ("gnu", "sysv", "both"):
                    for bid in ("none", "fast"):
                        full.append((relax, sm, relr, hs, bid))
    if not quick:
        return full
    return [full[0], full[-1],
            ("--no-relax", "", "-z pack-relative-relocs", "sysv", "fast"),
            ("--relax", "--no-string-merge", "-z nopack-relative-relocs", "both", "none"),
            ("--no-relax", "--no-string-merge", "-z pack-relative-relocs", "gnu", "none"),
            ("--relax", "", "-z nopack-relative-relocs", "sysv", "fast")]


def opt_args(opt):
    relax, sm, relr, hs, bid = opt
    a = [relax] + ([sm] if sm else []) + relr.split() + [f"--hash-style={hs}", f"--build-id={bid}"]
    return a


def run(ctx):
    r = ctx.rng
    nprog = 5 if ctx.quick else 15
    lattice = option_lattice(ctx.quick)
    for i in range(nprog):
        main_c, lib_c, uses_lib, tlsd_c, tlsl_c = gen_program(r.fork(), i)
        d = os.path.join(ctx.scratch, f"p{i}")
        os.makedirs(d, exist_ok=True)
        results = {}
        tlspad = {}
        try:
            objs = {"pic": lu.cc_obj(d, "main_pic", main_c, ["-fPIE", "-O1"]), "nopic": lu.cc_obj(d, "main_nopic", main_c, ["-fno-pic", "-fno-pie", "-O1"])}
            tlsd_o = lu.cc_obj(d, "tlsd_gnu2", tlsd_c, ["-fPIC", "-O1", "-mtls-dialect=gnu2"])
            tlsl_o = lu.cc_obj(d, "tlsl_gnu2", tlsl_c, ["-fPIC", "-O1", "-mtls-dialect=gnu2"])
            for o_, want in ((tlsd_o, "TLSDESC_CALL\tgd_a"), (tlsl_o, "TLSDESC_CALL\t_TLS_MODULE_BASE_")):
                rc_, dis, _ = lu.run(["objdump", "-dr", o_])
                if want not in dis:
                    ctx.broken.append(f"generated program {i}: {os.path.basename(o_)} contains no R_X86_64_{want.replace(chr(9), ' against ')}")
                ctx.count("tlsdesc-call-sites", "local-dynamic" if o_ is tlsl_o else "general-dynamic", dis.count("TLSDESC_CALL"))
            tls_objs = [tlsd_o, tlsl_o]
            fill = {"": lu.asm_obj(d, "fill_probe", FILL_ASM % (1, 1))}
            libs = []
            if uses_lib:
                lo = lu.cc_obj(d, "lib", lib_c, ["-fPIC", "-O1"])
                so = os.path.join(d, "libl.so")
                rc, o, e = cc.link_so("ld", [lo], so)
                if rc != 0:
                    raise RuntimeError("ld -shared: " + e)
                libs = [so]
        except RuntimeError as ex:
            ctx.broken.append(f"generated program {i} does not build: {str(ex)[:300]}")
            continue
        kinds = [("pie", "pic"), ("dyn", "nopic")] + ([] if uses_lib else [("static", "nopic"), ("static-pie", "pic")])
        # The last object of every link only defines `__thread char tls_fill[K]`.  In every second program K is chosen per output kind (after a probe
        # link with K = 1; the section has alignment 1 and comes last on the command line, so it ends the TLS segment) so that the TLS segment's size becomes a multiple of its alignment; the other programs keep whatever size comes out.
        for (kind, ob) in kinds:
            fill[kind] = fill[""]
            if i % 2 == 0:
                probe = os.path.join(d, "probe-" + kind)
                rc, o, e = cc.link_c("wild", kind, [objs[ob]] + tls_objs + [fill[""]], probe, libs=libs)
                if rc == 0:
                    tl = [sg for sg in elfread.Elf(probe).segments if sg.type == 7]
                    if tl:
                        k_ = 1 + (-tl[0].memsz) % max(tl[0].align, 1)
                        fill[kind] = lu.asm_obj(d, "fill_" + kind, FILL_ASM % (k_, k_))
        # reference: GNU ld, default options, per output kind (a few observations legitimately depend on the output kind even with
        # GNU ld, e.g. IFUNC pointer equality in PIE)
        refs = {}
        for (kind, ob) in kinds:
            rc, o, e = cc.link_c("ld", kind, [objs[ob]] + tls_objs + [fill[kind]], os.path.join(d, "ref-" + kind), libs=libs)
            if rc != 0:
                ctx.broken.append(f"GNU ld cannot link generated program {i} as {kind}: {e[:200]}")
                continue
            rr = cc.run_exe(os.path.join(d, "ref-" + kind), libdir=d)
            refs[kind] = (rr[0], rr[1])
            if rr[0] < 0 or rr[0] > 63:
                ctx.broken.append(f"generated program {i} crashes when linked by GNU ld as {kind}: rc={rr[0]}")
        kinds = [k for k in kinds if k[0] in refs]
        for (kind, ob) in kinds:
            for k, opt in enumerate(lattice):
                if ctx.quick and kind in ("static", "static-pie") and k >= 3:
                    continue
                out = os.path.join(d, f"w-{kind}-{k}")
                rc, o, e = cc.link_c("wild", kind, [objs[ob]] + tls_objs + [fill[kind]], out, libs=libs, extra=opt_args(opt))
                ctx.note_case((main_c, opt, kind))
                ctx.count("kind", kind)
                ctx.count("relax", opt[0])
                ctx.count("hash", opt[3])
                if rc != 0:
                    results[(kind, opt)] = ("link-fail", e.strip()[:300])
                    ctx.count("result", "link-fail")
                    continue
                try:
                    tl = [sg for sg in elfread.Elf(out).segments if sg.type == 7]
                    tlspad[(kind, opt)] = ((-tl[0].memsz) % max(tl[0].align, 1), tl[0].memsz, tl[0].align) if tl else (0, 0, 0)
                except Exception:
                    tlspad[(kind, opt)] = (0, 0, 0)
                ctx.count("tls-size-multiple-of-alignment", "yes" if tlspad[(kind, opt)][0] == 0 else "no")
                rr = cc.run_exe(out, libdir=d)
                results[(kind, opt)] = (rr[0], rr[1])
                ctx.count("result", "same-as-ld" if (rr[0], rr[1]) == refs[kind] else "differs")
                os.unlink(out)

        def primary(v):
            """exit status + first output line: everything except the observations of the local-dynamic TLS-descriptor object (second line)"""
            return (v[0], v[1].split("\n")[0] if isinstance(v[1], str) and v[0] != "link-fail" else v[1])
        bad = {k: v for k, v in results.items() if v != refs[k[0]]}
        if bad:
            ctx.cov["impl_oracle_failures"] += len(bad)
            keep = os.path.join(ctx.replay_dir(), f"c28-p{i}")
            os.makedirs(keep, exist_ok=True)
            for fn in os.listdir(d):
                if fn.endswith((".c", ".o", ".so")):
                    shutil.copy(os.path.join(d, fn), keep)
            how = "link main_pic.o/main_nopic.o + tlsd_gnu2.o tlsl_gnu2.o fill_<kind>.o (fill_probe.o if absent) (+ libl.so) with vlib/c01c38_common.link_c(kind, extra=options) and run with LD_LIBRARY_PATH=dir"
            reported = set()
            for (kind, opt), v in sorted(bad.items()):
                ref = refs[kind]
                if primary(v) == primary(ref):
                    # only the local-dynamic TLS-descriptor observations differ
                    pad, memsz, align = tlspad.get((kind, opt), (0, 0, 0))
                    key = f"tlsdesc-local-dynamic:{'tls-size-not-multiple-of-alignment' if pad else 'tls-size-multiple-of-alignment'}"
                    if key in reported:
                        continue
                    reported.add(key)
                    ctx.violation(key, f"program {i} as {kind} with {' '.join(opt_args(opt))}: static __thread variables reached through the _TLS_MODULE_BASE_ descriptor "
                                       f"(-mtls-dialect=gnu2 local-dynamic) read/written at the wrong place: second output line {v[1].split(chr(10))[1:2]} vs GNU ld's "
                                       f"{ref[1].split(chr(10))[1:2]}; PT_TLS memsz 0x{memsz:x} align 0x{align:x} (padding to the thread pointer: {pad})",
                                  {"dir": keep, "kind": kind, "options": opt_args(opt), "observed": v, "expected": ref, "pt_tls": {"memsz": memsz, "align": align}, "how": how})
                    continue
                # group by the smallest description: which toggles are common to all failing variants
                same_kind_ok = [o2 for (k2, o2), v2 in results.items() if k2 == kind and primary(v2) == primary(ref)]
                differing = ""
                if same_kind_ok:
                    best = min(same_kind_ok, key=lambda o2: sum(a != b for a, b in zip(o2, opt)))
                    differing = ",".join(b for a, b in zip(best, opt) if a != b)
                key = f"behaviour:{kind}:{differing or 'all-options'}:{'link' if v[0] == 'link-fail' else 'run'}"
                if key in reported:
                    continue
                reported.add(key)
                ctx.violation(key, f"program {i} as {kind} with {' '.join(opt_args(opt))}: {('link fails: ' + v[1]) if v[0] == 'link-fail' else f'exit {v[0]} stdout {v[1]!r}'}; "
                              f"GNU ld / sibling variants: exit {ref[0]} stdout {ref[1]!r}" + (f"; nearest passing variant differs in: {differing}" if differing else ""),
                              {"dir": keep, "kind": kind, "options": opt_args(opt), "observed": v, "expected": ref, "how": how})
        shutil.rmtree(d, ignore_errors=True)
