"""C29 - Alignment arithmetic is exact."""
LEAN_MODULES = ["WildModel.Props.C29"]
THEOREMS = [
    "Wild.Align.align_up_spec",
    "Wild.Align.align_up_overflow_region",
    "Wild.Align.align_down_spec",
    "Wild.Align.align_modulo_spec",
    "Wild.Align.new_accepts_iff",
    "Wild.Align.new_rejects_iff",
]
LEVEL = "proof"
TRUSTED = [
    "hand-written model lean/WildModel/Model/Align.lean of libwild/src/alignment.rs, tied by differential correspondence align-* on generated inputs",
    "u64::next_multiple_of modelled from core's source (match self % rhs {0 => self, r => self + (rhs - r)}); debug-profile overflow checks",
    "bv_decide (LRAT-checked SAT certificates) for the 17-way bit-level facts alignDown = v - v % 2^e and alignModulo = alignUp + r % 2^e",
]
RULE = ("boundary grid (values around multiples of 2^e, 0, 2^64-1, overflow region) x 17 exponents + splitmix64-random 64-bit values; "
        "all cases non-trivial; distinct by request text. The implementation result is also checked directly against the arithmetic statement "
        "of the property (independent Python oracle).")
ASSUMPTIONS = ["exponent field is always <= 16 (Alignment::new is the only constructor besides constants)"]

M = (1 << 64) - 1


def gen(ctx):
    r = ctx.rng
    n = 4000 if ctx.quick else 200000
    lines = []
    for e in range(17):
        a = 1 << e
        for base in [0, a, 5 * a, (1 << 63), M - a + 1, M - 3 * a + 1, (1 << 32)]:
            for d in (-2, -1, 0, 1, 2):
                v = (base + d) & M
                lines.append(f"align-up {e} 0x{v:x}")
                lines.append(f"align-down {e} 0x{v:x}")
                lines.append(f"align-mod {e} 0x{r.u64_interesting():x} 0x{v:x}")
    for raw in [0, 1, 2, 3, 4, 0x8000, 0x10000, 0x10001, 0x20000, 0x18000, 1 << 63, M, 1 << 32]:
        lines.append(f"align-new 0x{raw:x}")
    for i in range(64):
        lines.append(f"align-new 0x{1 << i:x}")
        lines.append(f"align-new 0x{(1 << i) + 1:x}")
    for _ in range(n):
        e = r.below(17)
        k = r.below(4)
        v = r.u64_interesting()
        if k == 0:
            lines.append(f"align-up {e} 0x{v:x}")
        elif k == 1:
            lines.append(f"align-down {e} 0x{v:x}")
        elif k == 2:
            lines.append(f"align-mod {e} 0x{r.u64_interesting():x} 0x{v:x}")
        else:
            if r.chance(1, 2):
                v = 1 << r.below(64)
            lines.append(f"align-new 0x{v:x}")
    return lines


def oracle(line, out):
    """Independent statement of the property on the implementation's answer. None = fine."""
    t = line.split()
    if t[0] == "align-new":
        raw = int(t[1], 16)
        ok = raw != 0 and raw & (raw - 1) == 0 and raw <= 1 << 16
        exp = f"ok {raw.bit_length() - 1}" if ok else "err"
        return None if out == exp else exp
    e = int(t[1])
    a = 1 << e
    if t[0] == "align-up":
        v = int(t[2], 16)
        u = -(-v // a) * a
        exp = f"0x{u:x}" if u <= M else "panic:overflow"
        if u > M and not out.startswith("0x"):
            return None  # no 64-bit answer exists; any diagnostic is fine
        return None if out == exp else exp
    if t[0] == "align-down":
        v = int(t[2], 16)
        exp = f"0x{v // a * a:x}"
        return None if out == exp else exp
    if t[0] == "align-mod":
        r_, o = int(t[2], 16), int(t[3], 16)
        u = -(-o // a) * a
        m = u + (r_ % a)
        if m > M:
            return None  # overflow region: no 64-bit answer exists
        exp = f"0x{m:x}"
        return None if out == exp else exp
    return None


def run(ctx):
    lines = gen(ctx)
    for l in lines:
        ctx.count("op", l.split()[0])
    dis, impl, model = ctx.differential("align", lines)
    n_over = sum(1 for x in impl if x.startswith("panic"))
    ctx.count("result", "overflow-region", n_over)
    ctx.count("result", "value", len(impl) - n_over)
    # direct oracle on the implementation
    for l, o in zip(lines, impl):
        exp = oracle(l, o)
        if exp is not None:
            ctx.cov["impl_oracle_failures"] += 1
            ctx.violation("align:" + l.split()[0], f"alignment arithmetic wrong: {l} -> {o}, property requires {exp}",
                          {"request": l, "observed": o, "expected": exp, "how": "echo '<request>' | /verif/.target/wvh/debug/wvh"})
