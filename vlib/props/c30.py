"""C30 - Constructor and destructor order matches GNU ld."""
import os
import shutil
import struct

from .. import linkutil as lu
from ..elfread import Elf

NEEDS_WILD = True


def run_bytes(path, timeout=20):
    """Run a linked program; returns (returncode, raw stdout bytes)."""
    import subprocess
    try:
        p = subprocess.run([path], stdout=subprocess.PIPE, stderr=subprocess.PIPE, timeout=timeout)
        return p.returncode, p.stdout
    except subprocess.TimeoutExpired:
        return -999, b""

LEAN_MODULES = ["WildModel.Props.C30"]
THEOREMS = [
    "Wild.InitFini.initfini_order_eq_gnu_partial",
    "Wild.InitFini.preinit_order_eq_gnu",
    "Wild.InitFini.order_stable",
    "Wild.InitFini.secOrder_sorted",
    "Wild.InitFini.mem_secOrder",
    "Wild.InitFini.witness_suffixed_65535_vs_unsuffixed",
    "Wild.InitFini.witness_suffix_gt_65535",
    "Wild.InitFini.witness_non_numeric_suffix",
    "Wild.InitFini.witness_equal_priority_different_names",
    "Wild.InitFini.C30_full_witness",
]
LEVEL = "proof"
TECHNIQUE = ("Lean 4 theorems over an executable model of init_fini_priority / apply_init_fini_secondaries / secondary ordering / "
             "should_reverse_contents and an independent model of GNU ld's SORT_BY_INIT_PRIORITY script + whole-link differential "
             "correspondence (wild vs model, GNU ld vs spec, wild vs GNU ld; static read of the arrays and native execution)")
TRUSTED = [
    "hand-written model lean/WildModel/Model/InitFini.lean, tied by whole-link correspondence `initfini`: generated objects/archives "
    "with entries in .preinit_array/.init_array[.N]/.fini_array[.N]/.ctors[.N]/.dtors[.N] are linked by the hooked wild and the emitted "
    "pointer sequence is read back from the output and mapped to constructor ids",
    "Props/C30Spec.lean (`gnuOrder`) is a reading of GNU ld 2.40's default script and of ldlang.c wild_sort/compare_section/get_init_priority; "
    "validated on every generated case against /usr/bin/ld's output (correspondence `initfini-gnu-spec`)",
    "input order = command-line order of files, section-header order within a file; archive members in archive order (wild) / extraction order (GNU ld)",
    "as, ar, GNU ld, vlib/elfread.py; native execution of freestanding programs that walk the arrays themselves",
]
RULE = ("random lists of 2-7 files (objects and archive members), each with 0-4 array sections holding 1-3 entries; names drawn from the region of "
        "the partial theorem plus one dedicated stream per excluded class; a case is non-trivial when some output receives >= 2 input sections; "
        "distinct by request line")
ASSUMPTIONS = ["all array input sections have alignment 8 and a size that is a multiple of 8",
               "no input file is named *crtbegin*.o / *crtend*.o (EXCLUDE_FILE part of GNU ld's script is not modelled)",
               "non-PIE static executables (array contents are link-time constants)"]
EXPLANATION = ("The full statement (wild's order = GNU ld's order for every input) is false; `initfini_order_eq_gnu_partial` proves it inside the region "
               "`agreeB` and five input classes outside it are recorded as known findings, each with a proved Lean witness and a live reproduction.")

CLASSES = {
    "suffixed-65535-vs-unsuffixed": "`.init_array.65535`/`.ctors.0` (and fini/dtors) share wild's priority-65535 secondary with the unsuffixed sections and keep command-line order; GNU ld emits all suffixed sections before all unsuffixed ones",
    "suffix-gt-65535": "priority suffixes > 65535 are clamped to 65535 by wild (`.ctors.N`: to 0); GNU ld orders them numerically (`.ctors.N`: by name)",
    "non-numeric-suffix": "`.init_array.<non-number>` stays in wild's primary section (emitted first); GNU ld sorts it by name among the prioritised sections",
    "equal-priority-different-names": "sections of equal priority but different names (`.ctors.65435` vs `.init_array.100`, `.init_array.0100` vs `.init_array.100`) keep command-line order in wild; GNU ld orders them by name",
    "archive-extraction-order": "archive members contribute in archive-index order in wild; GNU ld (and lld) use extraction order (a member pulled in by a later member comes after it)",
}

START = """
    .globl _start
    .text
_start:
    lea __preinit_array_start(%rip), %rbx
    lea __preinit_array_end(%rip), %r12
1:  cmp %r12, %rbx
    jae 2f
    call *(%rbx)
    add $8, %rbx
    jmp 1b
2:  lea __init_array_start(%rip), %rbx
    lea __init_array_end(%rip), %r12
3:  cmp %r12, %rbx
    jae 4f
    call *(%rbx)
    add $8, %rbx
    jmp 3b
4:  lea __fini_array_end(%rip), %rbx
    lea __fini_array_start(%rip), %r12
5:  cmp %r12, %rbx
    jbe 6f
    sub $8, %rbx
    call *(%rbx)
    jmp 5b
6:  mov $1, %eax
    mov $1, %edi
    lea buf(%rip), %rsi
    mov pos(%rip), %rdx
    syscall
    mov $60, %eax
    xor %edi, %edi
    syscall
    .bss
    .globl buf, pos
buf: .skip 4096
pos: .skip 8
"""


def sec_type(name):
    if name.startswith(".init_array"):
        return "@init_array"
    if name.startswith(".fini_array"):
        return "@fini_array"
    if name.startswith(".preinit_array"):
        return "@preinit_array"
    return "@progbits"


def render(f, main):
    out = [START] if main else []
    for sym in f.get("defs", []):
        out.append(f"    .data\n    .globl {sym}\n{sym}: .quad 0\n")
    for sym in f.get("refs", []):
        out.append(f"    .data\n    .quad {sym}\n")
    for (name, ids) in f["secs"]:
        for k in ids:
            out.append(f"    .text\n    .globl fn_{k}\n    .type fn_{k}, @function\nfn_{k}:\n    mov pos(%rip), %rax\n    lea buf(%rip), %rcx\n"
                       f"    movb ${k}, (%rcx,%rax)\n    incq pos(%rip)\n    ret\n    .size fn_{k}, .-fn_{k}\n")
        # some producers (old toolchains, clang's integrated assembler given an explicit type) emit the array sections as SHT_PROGBITS
        out.append(f'    .section {name},"aw",{"@progbits" if f.get("progbits") else sec_type(name)}\n    .balign 8\n')
        for k in ids:
            out.append(f"    .quad fn_{k}\n")
    return "".join(out)


def read_arrays(path):
    e = Elf(path)
    addr2 = {}
    for y in e.symtab():
        if y.name.startswith("fn_"):
            addr2[y.value] = int(y.name[3:])
    res = {}
    for nm in ("preinit_array", "init_array", "fini_array"):
        a = e.symaddr(f"__{nm}_start")
        b = e.symaddr(f"__{nm}_end")
        if a is None or b is None:
            res[nm] = "missing-bounds"
            continue
        seq = []
        for p in range(a, b, 8):
            v = e.u64(p)
            seq.append(str(addr2.get(v, f"?{v:x}")))
        res[nm] = ",".join(seq)
    # entries that ended up in stand-alone .ctors/.dtors output sections would be lost to the comparison: report them
    for nm in (".ctors", ".dtors"):
        s = e.sec(nm)
        if s is not None and s.size:
            res[nm] = s.size
    return res


def canon(res):
    s = f"P={res['preinit_array']} I={res['init_array']} F={res['fini_array']}"
    for nm in (".ctors", ".dtors"):
        if nm in res:
            s += f" stray{nm}={res[nm]}"
    return s


def expected_native(res):
    """Order in which the freestanding _start calls the entries: preinit, init forward, fini backward."""
    def ids(s):
        return [int(x) for x in s.split(",") if x and not x.startswith("?")]
    return ids(res["preinit_array"]) + ids(res["init_array"]) + list(reversed(ids(res["fini_array"])))


# ---------------------------------------------------------------- generation

def region_names(r):
    """A pool of section names inside the region of the partial theorem: one name per priority value."""
    pool = {"init": [".init_array", ".init_array", ".ctors"], "fini": [".fini_array", ".fini_array", ".dtors"]}
    for fam, a, c in (("init", ".init_array", ".ctors"), ("fini", ".fini_array", ".dtors")):
        for p in r.shuffle([0, 1, 5, 100, 101, 200, 1000, 32768, 65533, 65534])[:r.range(1, 5)]:
            if r.chance(1, 3):
                pool[fam].append(f"{c}.{65535 - p}")
            else:
                pool[fam].append(f"{a}.{p}")
    return pool


def gen_files(r, klass):
    nfiles = r.range(2, 7)
    pool = region_names(r)
    extra = []
    if klass == "suffixed-65535-vs-unsuffixed":
        extra = [r.choice([".init_array.65535", ".ctors.0"]), ".init_array", r.choice([".fini_array.65535", ".dtors.0"]), ".fini_array"]
    elif klass == "suffix-gt-65535":
        extra = [r.choice([".init_array.70000", ".init_array.65536", ".init_array.4000000000", ".ctors.70000"]), ".init_array.65534",
                 r.choice([".fini_array.66000", ".dtors.65536"]), ".init_array"]
    elif klass == "non-numeric-suffix":
        extra = [r.choice([".init_array.foo", ".init_array.1x", ".ctors.a1", ".init_array.5.7"]), ".init_array.100", r.choice([".fini_array.z", ".dtors.q"]), ".fini_array.7"]
    elif klass == "equal-priority-different-names":
        extra = r.choice([[".init_array.100", ".ctors.65435"], [".init_array.100", ".init_array.0100"], [".fini_array.200", ".dtors.65335"],
                          [".ctors.065435", ".ctors.65435"]])
    files = []
    next_id = [1]

    def mk_sec(name):
        n = r.range(1, 3)
        ids = list(range(next_id[0], next_id[0] + n))
        next_id[0] += n
        return (name, ids)

    ar_group = 0
    for k in range(nfiles):
        f = {"kind": "obj", "secs": [], "defs": [], "refs": []}
        if k > 0 and r.chance(1, 3):
            f["kind"] = "ar"
            if files[-1]["kind"] == "ar" and r.chance(2, 3):
                f["group"] = files[-1]["group"]
            else:
                ar_group += 1
                f["group"] = ar_group
            f["defs"].append(f"pull_{k}")
        for _ in range(r.range(0, 4)):
            c = r.below(10)
            if c < 4:
                f["secs"].append(mk_sec(r.choice(pool["init"])))
            elif c < 7:
                f["secs"].append(mk_sec(r.choice(pool["fini"])))
            elif c < 8:
                f["secs"].append(mk_sec(".preinit_array"))
            elif extra:
                f["secs"].append(mk_sec(r.choice(extra)))
        files.append(f)
    # make sure every dedicated name occurs (spread over files in random positions)
    for nm in extra:
        if not any(nm == s[0] for f in files for s in f["secs"]):
            f = r.choice(files)
            f["secs"].insert(r.below(len(f["secs"]) + 1), mk_sec(nm))
    # every archive member is pulled by the main object, so GNU ld extracts in archive order
    for k, f in enumerate(files):
        if f["kind"] == "ar":
            files[0]["refs"].append(f"pull_{k}")
    if klass == "archive-extraction-order":
        # two members: the later one is referenced from main and pulls the earlier one
        k = len(files)
        a = {"kind": "ar", "group": 99, "secs": [mk_sec(".init_array"), mk_sec(".fini_array")], "defs": [f"pull_{k}"], "refs": []}
        b = {"kind": "ar", "group": 99, "secs": [mk_sec(".init_array"), mk_sec(".fini_array.7")], "defs": [f"pull_{k + 1}"], "refs": [f"pull_{k}"]}
        files[0]["refs"].append(f"pull_{k + 1}")
        pos = r.range(1, len(files))
        files[pos:pos] = [a, b]
        a["gnu_after"] = True   # GNU ld: a is extracted after b
    if next_id[0] > 250:
        return gen_files(r, klass)
    # the assembler merges same-named sections of one file: do the same in the abstract input
    for f in files:
        merged = {}
        for name, ids in f["secs"]:
            merged.setdefault(name, []).extend(ids)
        f["secs"] = list(merged.items())
    for k, f in enumerate(files):
        if k > 0 and r.chance(1, 5):
            f["progbits"] = True
    return files


def request(files, order=None):
    toks = ["initfini"]
    for k in (order if order is not None else range(len(files))):
        for (name, ids) in files[k]["secs"]:
            toks.append(f"{name}={','.join(map(str, ids))}")
    return " ".join(toks)


def gnu_file_order(files):
    order = []
    k = 0
    while k < len(files):
        if files[k].get("gnu_after"):
            order += [k + 1, k]
            k += 2
        else:
            order.append(k)
            k += 1
    return order


def build(d, files):
    os.makedirs(d, exist_ok=True)
    objs = [lu.asm_obj(d, f"f{k}", render(f, k == 0), target="x86_64-linux-gnu" if f.get("progbits") else None) for k, f in enumerate(files)]
    line = []
    k = 0
    while k < len(files):
        f = files[k]
        if f["kind"] == "obj":
            line.append(objs[k])
            k += 1
        else:
            j = k
            members = []
            while j < len(files) and files[j]["kind"] == "ar" and files[j]["group"] == f["group"]:
                members.append(objs[j])
                j += 1
            a = os.path.join(d, f"lib{k}.a")
            lu.archive(a, members)
            line.append(a)
            k = j
    return line


def split_model(line):
    t = dict(x.split("=", 1) for x in line.split())
    return (f"P={t['P']} I={t['I']} F={t['F']}", f"P={t['GP']} I={t['GI']} F={t['GF']}")


def run(ctx):
    r = ctx.rng
    plan = [(None, 36 if ctx.quick else 1200)] + [(c, 5 if ctx.quick else 80) for c in CLASSES]
    reqs, wild_obs, ld_obs, cases = [], [], [], []
    i = 0
    for klass, n in plan:
        for _ in range(n):
            files = gen_files(r, klass)
            d = os.path.join(ctx.scratch, f"c{i}")
            i += 1
            try:
                line = build(d, files)
            except RuntimeError as ex:
                ctx.count("gen", "build-failed")
                continue
            obs = {}
            for lk in ("wild", "ld"):
                out = os.path.join(d, "out." + lk)
                args = ["-o", out] + line
                if lk == "wild":
                    args = [f"--threads={r.choice([1, 2, 8])}"] + args
                rc, o, e = lu.link(lk, args, cwd=d)
                if rc != 0:
                    obs[lk] = ("link-failed:" + e.strip().split("\n")[0][:160], None)
                    continue
                res = read_arrays(out)
                can = canon(res)
                # native run must call the entries in exactly the order read statically
                rr, so = run_bytes(out)
                exp = expected_native(res)
                got = list(so) if rr == 0 else f"rc={rr}"
                if "?" not in can and got != exp:
                    ctx.cov["impl_oracle_failures"] += 1
                    ctx.violation(f"native-vs-static:{lk}:{request(files)}", f"{lk}-linked program ran its constructors in order {got}, arrays read statically say {exp}",
                                  {"files": files, "linker": lk, "link_line": line})
                obs[lk] = (can, res)
            reqs.append(request(files))
            wild_obs.append(obs["wild"][0])
            ld_obs.append(obs["ld"][0])
            cases.append((klass, files, line, d))
            ctx.count("class", klass or "region")
            ctx.count("files", str(len(files)))
            for f in files:
                ctx.count("file-kind", f["kind"])
                for s in f["secs"]:
                    ctx.count("section", s[0].split(".")[1] + ("" if s[0].count(".") == 1 else ".N"))
    model_raw = ctx.model_eval(reqs)
    model_w = [split_model(m)[0] for m in model_raw]
    # GNU side of the spec gets the sections in GNU ld's file order (differs only for the extraction-order class)
    gnu_reqs = [request(c[1], gnu_file_order(c[1])) for c in cases]
    model_g = [split_model(m)[1] for m in ctx.model_eval(gnu_reqs)]

    def nontrivial(l, a, b):
        names = [t.split("=")[0] for t in l.split()[1:]]
        fam = lambda n: "i" if n.startswith((".init_array", ".ctors")) else "f" if n.startswith((".fini_array", ".dtors")) else "p"
        cnt = {}
        for n in names:
            cnt[fam(n)] = cnt.get(fam(n), 0) + 1
        return any(v >= 2 for v in cnt.values())

    dis_w, _, _ = ctx.differential("initfini", reqs, impl_out=wild_obs, model_out=model_w, nontrivial=nontrivial)
    dis_g, _, _ = ctx.differential("initfini-gnu-spec", gnu_reqs, impl_out=ld_obs, model_out=model_g, nontrivial=nontrivial)
    # the oracle proper: wild vs GNU ld
    for idx, (klass, files, line, d) in enumerate(cases):
        w, g = wild_obs[idx], ld_obs[idx]
        if w == g:
            ctx.count("oracle", "wild==ld")
            continue
        ctx.cov["impl_oracle_failures"] += 1
        ctx.count("oracle", "wild!=ld")
        explained = (w == model_w[idx] and g == model_g[idx])
        replay = {"request": reqs[idx], "class": klass, "wild": w, "ld": g, "model_wild": model_w[idx], "model_gnu": model_g[idx],
                  "link_line": [os.path.basename(x) for x in line], "sources": {f"f{k}.s": render(f, k == 0) for k, f in enumerate(files)},
                  "how": "as each fK.s; ar the archive groups; link with wild and /usr/bin/ld; compare __init_array_start..end etc."}
        if klass is not None and explained:
            ctx.violation("c30:" + klass, CLASSES[klass] + f": wild {w} / GNU ld {g}", replay)
        else:
            keep = os.path.join(ctx.replay_dir(), f"c30-{idx}")
            shutil.copytree(d, keep, dirs_exist_ok=True)
            replay["dir"] = keep
            ctx.violation("order:" + reqs[idx], f"wild emits constructors/destructors in a different order than GNU ld: wild {w} / GNU ld {g}", replay)
    for _, _, _, d in cases:
        shutil.rmtree(d, ignore_errors=True)
