"""C31 - Symbol tables describe the final resolution."""
import os
import shutil

from .. import linkutil as lu
from .. import runner
from ..elfread import Elf, SHN_ABS

NEEDS_WILD = True
LEAN_MODULES = ["WildModel.Props.C31"]
THEOREMS = [
    "Wild.SymTab.dynsym_iff_spec",
    "Wild.SymTab.hidden_never_exported",
    "Wild.SymTab.excluded_libs_never_exported",
    "Wild.SymTab.version_local_never_exported",
    "Wild.SymTab.imports_iff_spec",
    "Wild.SymTab.symtab_locals_first",
    "Wild.SymTab.symtab_each_once",
    "Wild.SymTab.symtab_attributes",
]
LEVEL = "proof"
TECHNIQUE = ("Lean 4 theorems over an executable model of can_export_symbol / export_all_dynamic / DOWNGRADE_TO_LOCAL / SymbolTableWriter ordering "
             "+ whole-link differential correspondence (wild vs model; GNU ld's .dynsym as oracle; direct .symtab predicates)")
TRUSTED = [
    "hand-written model lean/WildModel/Model/SymTab.lean of layout.rs can_export_symbol / ObjectLayoutState::activate (export_all_dynamic) / export_dynamic, "
    "symbol_db.rs should_downgrade_to_local / process_alternatives / handle_non_default_visibility, resolution.rs resolve_symbol (hidden references), "
    "elf_writer.rs write_symbols / SymbolTableWriter; tied by the whole-link correspondence `st`: generated inputs are assembled, linked by the hooked wild "
    "built from /repo's working tree, and .dynsym/.symtab are read back with vlib/elfread.py",
    "which files are loaded and which definition is canonical comes from M-Link (Model/Link.lean, properties C02/C03)",
    "the declarative `specExport` in Props/C31.lean is the reading of the property text; validated against GNU ld 2.40's .dynsym on the same link lines",
    "section garbage collection and --retain-symbols-file are not modelled (links use --no-gc-sections); version-script pattern matching is C15/C32's subject "
    "(only exact names under local: are generated)",
    "as, ar, GNU ld (builds the shared-object inputs and is the oracle), vlib/elfread.py",
]
RULE = ("random abstract link inputs (3-6 files: objects, archive members, shared objects; visibilities default/protected/hidden/internal on definitions, hidden "
        "on references; strong/weak; types notype/object/func) x output kind (shared, PIE, dynamically linked exe) x export controls (--export-dynamic, "
        "--export-dynamic-symbol, --dynamic-list, version script local:, --exclude-libs=ALL|lib) x strip option (none, --strip-all, --strip-debug, -x) x "
        "--threads; non-trivial = at least one non-default visibility, export control or excluded archive; distinct by request line")
ASSUMPTIONS = [
    "one symbol-table entry per (file, name); COMMON / GNU_UNIQUE definitions and COMDAT are C02's subject and not generated here",
    "hidden references are generated only for names defined by a regular object on the command line; unresolved references are weak in executables",
    "linker-synthesised names are ignored when comparing with GNU ld: " + "see IGNORED_NAMES",
]

MARK = 0x5A5A000000000000
IGNORED_NAMES = {"_end", "end", "__bss_start", "_edata", "edata", "_etext", "etext", "__etext", "_DYNAMIC", "_GLOBAL_OFFSET_TABLE_",
                 "__ehdr_start", "__executable_start", "__dso_handle", "_PROCEDURE_LINKAGE_TABLE_", "_TLS_MODULE_BASE_"}
VIS_DIRECTIVE = {"d": None, "p": ".protected", "h": ".hidden", "i": ".internal"}
STT = {0: None, 1: "@object", 2: "@function"}
STV_CODE = {"d": 0, "i": 1, "h": 2, "p": 3}


def symname(n):
    return f"sym_{n}"


def num_of(name):
    if name.startswith("sym_") and name[4:].isdigit():
        return int(name[4:])
    return None


# ---------------------------------------------------------------- generation
def gen_case(r):
    multi = r.chance(1, 4)   # several archives, several --exclude-libs options
    nfiles = r.range(5, 6) if multi else r.range(3, 5)
    files = []
    lib = 0
    out = "s" if multi else r.choice(["s", "s", "pie", "exe"])
    for k in range(nfiles):
        if k == 0:
            kind = "obj"
        elif k == 1 and out != "s":
            kind = "so"      # a dynamically linked executable needs a shared object on the line
        else:
            kind = r.choice(["ar", "ar", "ar", "obj"]) if multi else r.choice(["obj", "obj", "ar", "ar", "so"])
        f = {"kind": kind, "syms": []}
        if kind == "ar":
            if files and files[-1]["kind"] == "ar" and r.chance(1, 3) and not multi:
                f["lib"] = files[-1]["lib"]
            else:
                lib += 1
                f["lib"] = lib
        files.append(f)
    # archives go last on the command line (inside one --start-group) so that GNU ld's left-to-right
    # archive scan loads the same members as wild (which member is loaded is C03's subject)
    files = [f for f in files if f["kind"] != "ar"] + [f for f in files if f["kind"] == "ar"]
    nnames = r.range(2, 5)
    for n in range(1, nnames + 1):
        strong_taken = False
        regular_def = False
        for k, f in enumerate(files):
            c = r.below(10)
            if c < 4:
                continue
            if c < 8:
                if f["kind"] == "so":
                    f["syms"].append({"n": n, "def": 1, "weak": int(r.chance(1, 4)), "vis": "d", "type": r.choice([0, 1, 2]), "size": 8})
                    continue
                weak = 1 if strong_taken else int(r.chance(1, 3))
                if not weak:
                    strong_taken = True
                vis = r.choice(["d", "d", "d", "d", "p", "h", "i"])
                typ = r.choice([0, 1, 2])
                f["syms"].append({"n": n, "def": 1, "weak": weak, "vis": vis, "type": typ, "size": r.choice([0, 8]) if typ else 0})
                if f["kind"] == "obj":
                    regular_def = True
            else:
                f["syms"].append({"n": n, "def": 0, "weak": 0, "vis": "d", "type": 0, "size": 0, "_ref": True})
        # references: hidden only if a regular object on the line defines the name; unresolved ones weak in executables
        defined_somewhere = any(s["def"] for f in files for s in f["syms"] if s["n"] == n)
        mandatory_def = any(s["def"] for f in files if f["kind"] != "ar" for s in f["syms"] if s["n"] == n)
        for f in files:
            for s in f["syms"]:
                if s["n"] == n and not s["def"]:
                    if f["kind"] != "so" and regular_def and r.chance(1, 5):
                        s["vis"] = "h"
                    if not mandatory_def:
                        s["weak"] = 1 if (out != "s" or r.chance(1, 2)) else 0
                    elif r.chance(1, 4):
                        s["weak"] = 1
        _ = defined_somewhere
    # each archive member gets a unique strong symbol, usually referenced from file 0 so that the member is loaded
    for k, f in enumerate(files):
        u = 100 + k
        if f["kind"] == "ar":
            f["syms"].append({"n": u, "def": 1, "weak": 0, "vis": r.choice(["d", "d", "p", "h"]), "type": 1, "size": 8})
            if r.chance(3, 4):
                files[0]["syms"].append({"n": u, "def": 0, "weak": 0, "vis": "d", "type": 0, "size": 0})
        elif f["kind"] == "obj":
            f["syms"].append({"n": u, "def": 1, "weak": 0, "vis": "d", "type": 1, "size": 8})
        if f["kind"] != "so":
            # the assembler emits STB_LOCAL entries first
            f["syms"].insert(0, {"n": 500 + k, "def": 1, "local": 1, "weak": 0, "vis": "d", "type": r.choice([0, 1]), "size": 0})
    names = sorted({s["n"] for f in files for s in f["syms"] if not s.get("local")})
    cfg = {"out": out, "E": 0, "list": None, "list_how": None, "vs": [], "excl": None, "strip": r.choice([None, None, "--strip-all", "--strip-debug", "-x"]),
           "threads": r.choice([1, 2, 8])}
    if r.chance(1, 3):
        cfg["E"] = 1
    if r.chance(1, 3):
        cfg["list"] = [n for n in names if r.chance(1, 2)] or [names[0]]
        cfg["list_how"] = r.choice(["sym", "dynlist"])
    if r.chance(1, 3):
        cfg["vs"] = [n for n in names if r.chance(1, 3)]
    libs = sorted({f["lib"] for f in files if f["kind"] == "ar"})
    if libs and (multi or r.chance(1, 2)):
        names = [f"liba{g}.a" for g in libs]
        if len(names) >= 2 and (multi or r.chance(1, 2)):
            k = r.range(2, len(names))
            cfg["excl"] = r.shuffle(names)[:k]
            cfg["excl_how"] = r.choice(["comma", "colon", "separate", "separate", "separate"])
        else:
            cfg["excl"] = r.choice(["ALL"] + names)
    return files, cfg


def excluded(f, cfg):
    if f["kind"] != "ar" or cfg["excl"] is None:
        return False
    if isinstance(cfg["excl"], list):
        return f"liba{f['lib']}.a" in cfg["excl"]
    return cfg["excl"] == "ALL" or cfg["excl"] == f"liba{f['lib']}.a"


def request_line(files, cfg):
    toks = ["st", "s" if cfg["out"] == "s" else "e", str(cfg["E"]),
            "-" if cfg["list"] is None else ",".join(map(str, cfg["list"])) or "-",
            "-" if not cfg["vs"] else ",".join(map(str, cfg["vs"]))]
    for f in files:
        toks.append("X%d%d%d" % (1 if f["kind"] == "so" else 0, 1 if f["kind"] == "ar" else 0, 1 if excluded(f, cfg) else 0))
        for s in f["syms"]:
            toks.append("S:%d:%d:%d:%d:%s:%d:%d" % (s["n"], s["def"], 1 if s.get("local") else 0, s["weak"], s["vis"], s["type"], s["size"]))
    return " ".join(toks)


def render_file(k, f, is_main):
    out = []
    if is_main:
        out.append("    .text\n    .globl _start\n    .hidden _start\n_start:\n    mov $60, %eax\n    xor %edi, %edi\n    syscall\n")
    for s in f["syms"]:
        name = symname(s["n"])
        if s["def"]:
            out.append("    .data\n    .balign 8\n")
            if s.get("local"):
                pass
            elif s["weak"]:
                out.append(f"    .weak {name}\n")
            else:
                out.append(f"    .globl {name}\n")
            if VIS_DIRECTIVE[s["vis"]] and not s.get("local"):
                out.append(f"    {VIS_DIRECTIVE[s['vis']]} {name}\n")
            if STT[s["type"]]:
                out.append(f"    .type {name}, {STT[s['type']]}\n")
            out.append(f"{name}:\n    .quad {MARK + (k << 16) + s['n']}\n")
            if s["size"]:
                out.append(f"    .size {name}, {s['size']}\n")
        else:
            if s["weak"]:
                out.append(f"    .weak {name}\n")
            if s["vis"] == "h":
                out.append(f"    .hidden {name}\n")
            out.append(f"    .data\n    .balign 8\n    .quad {name}\n")
    return "".join(out)


def build_inputs(d, files, cfg):
    os.makedirs(d, exist_ok=True)
    objs = {k: lu.asm_obj(d, f"f{k}", render_file(k, f, k == 0)) for k, f in enumerate(files)}
    line = []
    done_libs = set()
    for k, f in enumerate(files):
        if f["kind"] == "obj":
            line.append(objs[k])
        elif f["kind"] == "so":
            so = os.path.join(d, f"libs{k}.so")
            rc, o, e = lu.link("ld", ["-shared", "-o", so, "-soname", f"libs{k}.so", objs[k]])
            if rc != 0:
                raise RuntimeError("building shared object failed: " + e)
            line.append(so)
        else:
            g = f["lib"]
            if g in done_libs:
                continue
            done_libs.add(g)
            a = os.path.join(d, f"liba{g}.a")
            lu.archive(a, [objs[j] for j, h in enumerate(files) if h["kind"] == "ar" and h["lib"] == g])
            if not done_libs - {g}:
                line.append("--start-group")
            line.append(a)
    if done_libs:
        line.append("--end-group")
    args = ["--no-gc-sections"]
    if cfg["out"] == "s":
        args.append("-shared")
    elif cfg["out"] == "pie":
        args.append("-pie")
    if cfg["E"]:
        args.append("--export-dynamic")
    if cfg["list"] is not None:
        if cfg["list_how"] == "sym":
            args += [f"--export-dynamic-symbol={symname(n)}" for n in cfg["list"]]
        else:
            p = lu.write(os.path.join(d, "dynlist.txt"), "{ " + " ".join(symname(n) + ";" for n in cfg["list"]) + " };\n")
            args.append(f"--dynamic-list={p}")
    if cfg["vs"]:
        p = lu.write(os.path.join(d, "vs.txt"), "{ local: " + " ".join(symname(n) + ";" for n in cfg["vs"]) + " };\n")
        args.append(f"--version-script={p}")
    if isinstance(cfg["excl"], list):
        how = cfg.get("excl_how", "comma")
        if how == "comma":
            args.append("--exclude-libs=" + ",".join(cfg["excl"]))
        elif how == "colon":
            args.append("--exclude-libs=" + ":".join(cfg["excl"]))
        else:
            args += [f"--exclude-libs={x}" for x in cfg["excl"]]
    elif cfg["excl"]:
        args.append(f"--exclude-libs={cfg['excl']}")
    if cfg["strip"]:
        args.append(cfg["strip"])
    return args + line


# ---------------------------------------------------------------- observation
def dyn_sets(path):
    e = Elf(path)
    ds = e.dynsym()
    X, I, other = set(), set(), set()
    for y in ds[1:]:
        n = num_of(y.name)
        if n is None:
            if y.name and y.name not in IGNORED_NAMES:
                other.add(y.name)
            continue
        (I if y.shndx == 0 else X).add(n)
    return e, ds, X, I, other


def symtab_direct(e, files, cfg):
    """Direct statement of the .symtab part of the property on wild's output. Returns (problems, observed rows)."""
    probs = []
    sec = e.symtab_sec()
    if cfg["strip"] == "--strip-all":
        if sec is not None:
            probs.append(("strip-all-symtab-present", ".symtab present although --strip-all"))
        return probs, None
    if sec is None:
        probs.append(("symtab-missing", ".symtab missing"))
        return probs, None
    tab = e.symtab()
    first_nonlocal = next((y.index for y in tab if y.bind != 0), len(tab))
    if sec.info != first_nonlocal:
        probs.append(("symtab-sh-info", f"sh_info={sec.info} but the first non-local entry is #{first_nonlocal}"))
    for y in tab[first_nonlocal:]:
        if y.bind == 0:
            probs.append(("symtab-local-after-global", f"STB_LOCAL entry #{y.index} {y.name!r} after sh_info={sec.info}"))
            break
    rows = []
    seen = {}
    for y in tab[1:]:
        n = num_of(y.name)
        if n is None or n >= 500 or y.shndx == 0:
            if n is not None and n >= 500 and y.shndx != 0:
                rows.append((n, None, y))
            continue
        seen.setdefault(n, []).append(y)
    for n, ys in sorted(seen.items()):
        if len(ys) != 1:
            probs.append(("symtab-duplicate", f"{symname(n)} has {len(ys)} defined entries in .symtab"))
            continue
        y = ys[0]
        if y.shndx >= 0xFF00:
            probs.append(("symtab-shndx", f"{symname(n)} has reserved st_shndx 0x{y.shndx:x}"))
            continue
        s = e.sections[y.shndx]
        if not (s.addr <= y.value and y.value + y.size <= s.addr + s.size):
            probs.append(("symtab-value-outside-section", f"{symname(n)} value 0x{y.value:x} size {y.size} outside {s.name} [0x{s.addr:x},+0x{s.size:x})"))
            continue
        try:
            v = e.u64(y.value)
        except Exception:
            probs.append(("symtab-value-unmapped", f"{symname(n)} value 0x{y.value:x} not mapped"))
            continue
        if v >> 48 != MARK >> 48 or (v & 0xFFFF) != n:
            probs.append(("symtab-value-wrong", f"{symname(n)} value 0x{y.value:x} does not point at a definition of the name (word 0x{v:x})"))
            continue
        k = (v >> 16) & 0xFFFF
        src = next((t for t in files[k]["syms"] if t["n"] == n and t["def"]), None) if k < len(files) else None
        if src is None or files[k]["kind"] == "so":
            probs.append(("symtab-value-wrong", f"{symname(n)} points at file {k} which has no regular definition"))
            continue
        rows.append((n, k, y))
        if y.type != src["type"] or y.size != src["size"]:
            probs.append(("symtab-type-size", f"{symname(n)}: type/size {y.type}/{y.size}, chosen definition (file {k}) has {src['type']}/{src['size']}"))
        if y.vis != STV_CODE[src["vis"]]:
            probs.append(("symtab-visibility", f"{symname(n)}: st_other visibility {y.vis}, chosen definition (file {k}) has {STV_CODE[src['vis']]}"))
        want_bind = 2 if src["weak"] else 1
        if y.bind not in (0, want_bind):
            probs.append(("symtab-binding", f"{symname(n)}: binding {y.bind}, chosen definition (file {k}) has {want_bind}"))
    return probs, (first_nonlocal, rows)


def canon_symtab(files, obs):
    """Observed generated entries in the model's row format, locals part then globals part."""
    if obs is None:
        return None
    first_nonlocal, rows = obs
    out = []
    for n, k, y in sorted(rows, key=lambda r: r[2].index):
        if k is None:
            k = n - 500
        b = "L" if y.bind == 0 else ("W" if y.bind == 2 else "G")
        v = {0: "d", 1: "i", 2: "h", 3: "p"}[y.vis]
        out.append(f"{n}/{k}/{b}/{v}/{y.type}/{y.size}")
    return out


def canon_impl(files, cfg, path):
    e, ds, X, I, other = dyn_sets(path)
    probs, obs = symtab_direct(e, files, cfg)
    if ds and (ds[0].name != "" or ds[0].value or ds[0].shndx or ds[0].info):
        probs.append(("dynsym-null", ".dynsym[0] is not the null entry"))
    rows = canon_symtab(files, obs)
    return X, I, other, probs, rows


def fmt(X, I, rows, cfg):
    t = "-" if rows is None else ",".join(rows)
    return f"X={','.join(map(str, sorted(X)))} I={','.join(map(str, sorted(I)))} T={t}"


def parse_model(line, cfg):
    parts = dict(p.split("=", 1) for p in line.split(" "))
    X = {int(x) for x in parts["X"].split(",") if x}
    I = {int(x) for x in parts["I"].split(",") if x}
    rows = [x for x in parts["T"].split(",") if x]
    if cfg["strip"] == "--strip-all":
        rows = None
    return X, I, rows


def nontrivial_case(files, cfg):
    return (cfg["E"] or cfg["list"] is not None or cfg["vs"] or cfg["excl"] or
            any(s["vis"] != "d" for f in files for s in f["syms"]))


# ---------------------------------------------------------------- run
def run(ctx):
    r = ctx.rng
    n = 60 if ctx.quick else 1500
    reqs, impl, meta = [], [], []
    for i in range(n):
        files, cfg = gen_case(r)
        d = os.path.join(ctx.scratch, f"c{i}")
        try:
            args = build_inputs(d, files, cfg)
        except RuntimeError:
            ctx.count("gen", "build-failed")
            continue
        outw = os.path.join(d, "out.wild")
        rc, o, e = lu.link("wild", [f"--threads={cfg['threads']}", "-o", outw] + args, cwd=d)
        outl = os.path.join(d, "out.ld")
        rcl, ol, el = lu.link("ld", ["-o", outl] + args, cwd=d)
        ctx.count("out-kind", cfg["out"])
        ctx.count("strip", str(cfg["strip"]))
        ctx.count("controls", f"E{cfg['E']}-list{0 if cfg['list'] is None else 1}-vs{1 if cfg['vs'] else 0}-excl{('multi-' + cfg.get('excl_how', '')) if isinstance(cfg['excl'], list) else (cfg['excl'] or 0)}")
        if rc != 0:
            if rcl != 0:
                ctx.count("outcome", "both-linkers-reject")
            else:
                ctx.count("outcome", "wild-rejects-ld-accepts")
                ctx.sample({"wild-rejects": e.strip().split("\n")[0][:200], "request": request_line(files, cfg)})
            shutil.rmtree(d, ignore_errors=True)
            continue
        req = request_line(files, cfg)
        X, I, other, probs, rows = canon_impl(files, cfg, outw)
        replay = {"request": req, "link_args": args, "threads": cfg["threads"], "how": "rebuild inputs with vlib.props.c31.build_inputs from the request"}

        def keep():
            kd = os.path.join(ctx.replay_dir(), f"c31-{ctx.seed}-{i}")
            shutil.copytree(d, kd, dirs_exist_ok=True)
            replay["dir"] = kd

        # (a) direct predicates on .symtab / .dynsym[0]
        for key, what in probs:
            ctx.cov["impl_oracle_failures"] += 1
            keep()
            ctx.violation(key, what, dict(replay))
        if other:
            ctx.cov["impl_oracle_failures"] += 1
            keep()
            ctx.violation("dynsym-unexpected-name", f"wild's .dynsym contains names that no input asks for: {sorted(other)}", dict(replay))
        # (b) GNU ld as oracle for the .dynsym name sets; where ld disagrees ld.lld is asked too and a name is
        # only reported if wild's treatment matches neither (ld does not export a definition that a shared
        # object merely also defines, lld and wild do; ld hides a name whose NON-chosen definition sits in
        # an --exclude-libs archive, lld and wild look at the chosen definition only)
        hidden_names = {t["n"] for k2, f in enumerate(files) if f["kind"] != "so" for t in f["syms"] if t["vis"] in ("h", "i") and not t.get("local")}
        if rcl == 0:
            _, _, XL, IL, _ = dyn_sets(outl)
            ctx.count("outcome", "linked-both")
            so_defined = {t["n"] for f in files if f["kind"] == "so" for t in f["syms"] if t["def"]}
            restrict = (lambda S: S) if cfg["out"] == "s" else (lambda S: S & so_defined)
            # Names with a definition in an archive member AND another definition elsewhere: which member takes part can
            # differ between wild (first definer in command-line order is requested) and ld/lld (a weak definition already
            # loaded satisfies the reference) - that is C03's subject, so the oracles are not consulted for those names.
            definers = {}
            for k2, f2 in enumerate(files):
                for t in f2["syms"]:
                    if t["def"] and not t.get("local"):
                        definers.setdefault(t["n"], []).append(f2["kind"])
            ambiguous = {n for n, ks in definers.items() if len(ks) >= 2 and "ar" in ks}
            bad_x = (X ^ XL) - ambiguous
            bad_i = (restrict(I) ^ restrict(IL)) - ambiguous
            if bad_x or bad_i:
                outq = os.path.join(d, "out.lld")
                rcq, oq, eq = lu.link("lld", ["-o", outq] + args, cwd=d)
                ctx.count("oracle", "lld-consulted")
                if rcq == 0:
                    _, _, XQ, IQ, _ = dyn_sets(outq)
                    bad_x &= X ^ XQ
                    bad_i &= restrict(I) ^ restrict(IQ)
                else:
                    XQ = IQ = None
            if bad_x or bad_i:
                ctx.cov["impl_oracle_failures"] += 1
                extra, missing = sorted(bad_x & X), sorted(bad_x - X)
                cls = []
                if any(m in hidden_names for m in extra):
                    cls.append("hidden-exported")
                exn = {t["n"] for f in files if excluded(f, cfg) for t in f["syms"] if t["def"]}
                if any(m in exn for m in extra):
                    cls.append("excluded-lib-exported")
                if any(m in cfg["vs"] for m in extra):
                    cls.append("version-local-exported")
                if extra and not cls:
                    cls.append("over-export")
                if missing:
                    cls.append("under-export")
                if bad_i:
                    cls.append("imports")
                keep()
                ctx.violation("dynsym-vs-ld:" + "+".join(cls),
                              f"wild's .dynsym differs from both GNU ld's and ld.lld's on the same inputs: exported only by wild {[symname(m) for m in extra]}, "
                              f"not exported by wild {[symname(m) for m in missing]}; import differences {[symname(m) for m in sorted(bad_i)]}",
                              dict(replay, wild_exports=sorted(X), ld_exports=sorted(XL), lld_exports=None if XQ is None else sorted(XQ),
                                   wild_imports=sorted(I), ld_imports=sorted(IL), lld_imports=None if IQ is None else sorted(IQ)))
        else:
            ctx.count("outcome", "ld-rejects-wild-accepts")
            ctx.count("ld-reject-reason", " ".join(w for w in el.strip().split("\n")[0].split(":")[-1].split() if "/" not in w and "`" not in w)[:60] if el.strip() else "?")
        reqs.append(req)
        impl.append(fmt(X, I, rows, cfg))
        meta.append((files, cfg, d))
    model_raw = ctx.model_eval(reqs)
    model = []
    for (files, cfg, d), m in zip(meta, model_raw):
        if m == "bad-op":
            raise runner.BuildError("model driver does not know op `st`")
        MX, MI, mrows = parse_model(m, cfg)
        model.append(fmt(MX, MI, mrows, cfg))
    nt = {q: bool(nontrivial_case(f, c)) for q, (f, c, _) in zip(reqs, meta)}
    dis, _, _ = ctx.differential("st-symtab", reqs, impl_out=impl, model_out=model, nontrivial=lambda l, a, b: nt[l])
    for (l, a, b) in dis[:5]:
        i = reqs.index(l)
        kd = os.path.join(ctx.replay_dir(), f"c31-{ctx.seed}-model-{i}")
        shutil.copytree(meta[i][2], kd, dirs_exist_ok=True)
    for _, _, d in meta:
        shutil.rmtree(d, ignore_errors=True)
