"""C32 - Symbol versions follow the version script."""
import os
import re
import subprocess

from vlib import runner
from vlib.props.c15 import libc_fnmatch, hx

LEAN_MODULES = ["WildModel.Props.C32"]
THEOREMS = [
    "Wild.C32.find_match_global_glob_vs_later_local_glob_witness",
    "Wild.C32.find_match_nonstar_class_witness",
    "Wild.C32.find_match_spec_full_false",
    "Wild.C32.local_not_exported",
    "Wild.C32.version_index_spec",
    "Wild.C32.exact_global_first_wins",
    "Wild.C32.find_match_spec_partial",
    "Wild.C32.find_match_spec_partial_syn",
    "Wild.C32.GnuAgree_syntactic",
    "Wild.C32.starOK_iff",
    "Wild.C32.analyze_star_iff",
    "Wild.C32.realsymbol_none_analyze",
    "Wild.C32.realsymbol_some_analyze",
    "Wild.C32.entry_agree",
    "Wild.C32.build_ok",
    "Wild.C32.scan_eq",
    "Wild.C32.gnuFindIdx_eq",
    "Wild.C32.wild_eq",
    "Wild.C32.gnu_eq",
    "Wild.C32.glob_phase",
    "Wild.C32.all_phase",
]
LEVEL = "proof"
NEEDS_WILD = True
TRUSTED = [
    "hand-written model lean/WildModel/Model/VersionScript.lean of libwild/src/version_script.rs (classification of tokens, BasicMatchRules, "
    "find_match, version_for_symbol, is_local, Rust-style specialisation), tied by differential correspondence: the generated structure is rendered "
    "to script text, parsed by the REAL parser and queried through verif_api::versions",
    "GNU ld's precedence stated in lean/WildModel/Props/C32Spec.lean (after bfd_find_version_for_sym / lang_vers_match / realsymbol), validated on "
    "every run by real links with GNU ld 2.40 (readelf --dyn-syms / -V of the shared objects)",
    "the C++ demangler is a parameter of model and spec (identity in the correspondence: only unmangled C identifiers are generated)",
    "rendering of the structured script to text (vlib/props/c32.py: render)",
]
RULE = ("generated version scripts (anonymous or 1-4 named nodes with parents; exact names, quoted names, globs with * ? [..], match-all *, local "
        "patterns, extern \"C++\" blocks) x a pool of symbol names; a case is non-trivial if some pattern of the script matches the name; distinct by "
        "request text")
ASSUMPTIONS = [
    "scripts are GNU-valid: no pattern text occurs twice in a script (GNU ld rejects duplicates), at most one `*`",
    "verdef/verneed table consistency is checked by comparing readelf -V of wild's and GNU ld's outputs on the generated links, not by a theorem",
]

K_LOCAL_GLOB = "precedence:global-glob-vs-later-local-glob"
K_CLASS = "precedence:nonstar-vs-star-glob-class"
WHAT = {
    K_LOCAL_GLOB: "GNU ld lets a `global:` wildcard match in ANY node win over `local:` wildcard matches (global_ver before local_ver); wild scans "
                  "nodes last-to-first and lets a later node's `local:` wildcard win",
    K_CLASS: "wild ranks wildcard patterns without `*` (only ? or [..]) above patterns containing `*`; GNU ld (and lld) have one wildcard class "
             "where the LAST matching node wins",
}

SYMS = [b"foo", b"foo1", b"foo_bar", b"fob", b"bar", b"baz", b"f", b"qux_1", b"quux", b"api_v1_get", b"api_v2_get", b"zeta"]


def glob_for(r, name):
    k = r.below(8)
    n = len(name)
    if k == 0:
        return name[:r.range(0, n - 1)] + b"*"
    if k == 1:
        i = r.below(n)
        return name[:i] + b"?" + name[i + 1:]
    if k == 2:
        i = r.below(n)
        return name[:i] + b"[" + bytes([name[i]]) + b"z]" + name[i + 1:]
    if k == 3:
        return b"*" + name[r.range(1, n):]
    if k == 4:
        i = r.below(n)
        return name[:i] + b"*" + name[min(n, i + 2):]
    if k == 5:
        i = r.below(n)
        return name[:i] + b"?" + name[i + 1:r.range(i + 1, n)] + b"*"
    if k == 6:
        return b"[a-m]*"
    return name[:1] + b"?*"


def gen_script(r):
    anonymous = r.chance(1, 4)
    nn = 1 if anonymous else r.range(1, 4)
    used = set()
    nodes = []
    have_star = False
    for ni in range(nn):
        entries = []
        for _ in range(r.range(1, 6)):
            loc = r.chance(1, 3)
            cxx = r.chance(1, 12)
            quoted = False
            k = r.below(10)
            base = r.choice(SYMS)
            if k < 4:
                tok = base
                quoted = r.chance(1, 6)
            elif k < 8:
                tok = glob_for(r, base)
            elif k == 8 and not have_star:
                tok = b"*"
                loc = r.chance(3, 4)
                cxx = False
            else:
                tok = base + b"_none"
            if tok in used:
                continue
            if tok == b"*":
                have_star = True
            used.add(tok)
            entries.append((loc, cxx, quoted, tok))
        name = b"" if anonymous else f"VER_{ni + 1}".encode()
        parent = None
        if not anonymous and ni > 0 and r.chance(1, 2):
            parent = r.range(1, ni)
        nodes.append((name, parent, entries))
    return anonymous, nodes


def render(anonymous, nodes):
    out = []
    for name, parent, entries in nodes:
        body = []
        cur = None
        for loc, cxx, quoted, tok in entries:
            if cur != loc:
                body.append("local:" if loc else "global:")
                cur = loc
            t = tok.decode()
            if quoted:
                t = '"' + t + '"'
            body.append(f'extern "C++" {{ {t}; }};' if cxx else f"{t};")
        head = "" if anonymous else name.decode() + " "
        tail = "" if parent is None else " " + nodes[parent - 1][0].decode()
        out.append(head + "{ " + " ".join(body) + " }" + tail + ";")
    return "\n".join(out) + "\n"


def structure(anonymous, nodes):
    parts = ["A" if anonymous else "N"]
    for name, parent, entries in nodes:
        es = ",".join(("l" if loc else "g") + ("x" if cxx else "c") + ("q" if q else "u") + hx(tok) for loc, cxx, q, tok in entries) or "-"
        parts.append(f"{hx(name)};{'_' if parent is None else parent};{es}")
    return " ".join(parts)


def classify(nodes, name):
    gw = []   # (node, pattern) global wildcard matches
    lw = []
    for ni, (_, _, entries) in enumerate(nodes):
        for loc, cxx, quoted, tok in entries:
            if quoted or tok == b"*" or not any(c in tok for c in b"*?["):
                continue
            if libc_fnmatch(tok, name):
                (lw if loc else gw).append((ni, tok))
    if gw and lw:
        return K_LOCAL_GLOB
    allw = gw + lw
    if any(b"*" in t for _, t in allw) and any(b"*" not in t for _, t in allw) and len({n for n, _ in allw}) > 1:
        return K_CLASS
    return None


def dynsyms(path):
    out = subprocess.run(["readelf", "--dyn-syms", "-W", path], capture_output=True, text=True).stdout
    res = {}
    for line in out.split("\n"):
        t = line.split()
        if len(t) >= 8 and t[0].endswith(":") and t[0][:-1].isdigit() and t[6] != "UND" and t[4] in ("GLOBAL", "WEAK"):
            nm = t[7]
            base, _, ver = nm.partition("@")
            res[base] = ver.lstrip("@")
    return res


def verdefs(path):
    out = subprocess.run(["readelf", "-V", "-W", path], capture_output=True, text=True).stdout
    defs = []
    for line in out.split("\n"):
        m = re.search(r"Rev: \d+\s+Flags: (\S+)\s+Index: (\d+)\s+Cnt: (\d+)\s+Name: (\S+)", line)
        if m:
            defs.append([int(m.group(2)), m.group(1), m.group(4), []])
            continue
        m = re.search(r"Parent \d+: (\S+)", line)
        if m and defs:
            defs[-1][3].append(m.group(1))
    return defs


def run_links(ctx, n, reported):
    r = ctx.rng.fork()
    d = os.path.join(ctx.scratch, "vlinks")
    os.makedirs(d, exist_ok=True)
    src = ".text\n" + "".join(f".globl {s.decode()}\n.type {s.decode()},@function\n{s.decode()}: ret\n" for s in SYMS)
    open(os.path.join(d, "a.s"), "w").write(src)
    subprocess.run(["as", "a.s", "-o", "a.o"], cwd=d, check=True)
    compared = 0
    for case in range(n):
        anonymous, nodes = gen_script(r)
        text = render(anonymous, nodes)
        open(os.path.join(d, "v.map"), "w").write(text)
        res = {}
        for who, exe in (("gnu", "ld"), ("wild", runner.WILD)):
            outp = os.path.join(d, f"out.{who}.so")
            if os.path.exists(outp):
                os.unlink(outp)
            p = subprocess.run([exe, "-shared", "-soname=libv.so", "--version-script=v.map", "a.o", "-o", outp], cwd=d, capture_output=True, text=True, timeout=60)
            res[who] = (p.returncode, p.stderr[-300:], outp)
        ctx.count("links", "run")
        ctx.note_case(("vlink", text))
        if res["gnu"][0] != 0:
            ctx.count("links", "gnu-ld-rejected")
            continue
        replay = {"version_script": text, "symbols": [s.decode() for s in SYMS],
                  "how": "as a.s; ld|wild -shared -soname=libv.so --version-script=v.map a.o; readelf --dyn-syms -W / readelf -V"}
        if res["wild"][0] != 0:
            ctx.cov["impl_oracle_failures"] += 1
            ctx.violation("link:wild-error", f"wild fails on a version script GNU ld accepts: {res['wild'][1][-160:]}", replay)
            continue
        compared += 1
        vernames = {nm.decode() for nm, _, _ in nodes}
        g = {k: v for k, v in dynsyms(res["gnu"][2]).items() if k not in vernames}
        w = {k: v for k, v in dynsyms(res["wild"][2]).items() if k not in vernames}
        for s in SYMS:
            sn = s.decode()
            if g.get(sn, "<local>") != w.get(sn, "<local>"):
                ctx.cov["impl_oracle_failures"] += 1
                cls = classify(nodes, s)
                rp = dict(replay)
                rp.update({"symbol": sn, "gnu": g.get(sn, "<local>"), "wild": w.get(sn, "<local>")})
                if cls:
                    ctx.count("known-class", cls)
                    if cls not in reported:
                        reported.add(cls)
                        ctx.violation(cls, WHAT[cls] + f" (link: symbol {sn}: GNU ld {rp['gnu']!r}, wild {rp['wild']!r})", rp)
                elif "link:versym" not in reported:
                    reported.add("link:versym")
                    ctx.violation("link:versym", f"symbol {sn}: GNU ld gives version/visibility {rp['gnu']!r}, wild {rp['wild']!r}", rp)
        gd, wd = verdefs(res["gnu"][2]), verdefs(res["wild"][2])
        # GNU ld sets VER_FLG_WEAK on a version node that ends up without symbols; the property asks for consistent tables
        # (indices, names, parents, BASE), not for that flag: it is not compared
        strip = lambda vd: [[x[0], "BASE" if x[1] == "BASE" else "", x[2], x[3]] for x in vd]
        if strip(gd) != strip(wd) and "link:verdef" not in reported:
            ctx.cov["impl_oracle_failures"] += 1
            reported.add("link:verdef")
            rp = dict(replay)
            rp.update({"gnu_verdef": gd, "wild_verdef": wd})
            ctx.violation("link:verdef", f"version definitions differ from GNU ld: gnu={gd} wild={wd}", rp)
        # validate the GNU spec (Lean) against the real GNU ld result
        lines = [f"spec-gnu-find {hx(s)} - {structure(anonymous, nodes)}" for s in SYMS]
        spec = ctx.model_eval(lines)
        for s, o in zip(SYMS, spec):
            sn = s.decode()
            if o == "none":
                exp = ""
            elif o.endswith("L"):
                exp = "<local>"
            else:
                exp = "" if anonymous else nodes[int(o[:-1])][0].decode()
            if g.get(sn, "<local>") != exp:
                ctx.broken.append(f"GNU precedence spec (C32Spec.gnuFind) disagrees with GNU ld: script={text!r} symbol={sn}: spec={o} -> {exp!r}, ld={g.get(sn, '<local>')!r}")
                break
    ctx.count("links", "compared", compared)


def run(ctx):
    r = ctx.rng
    n = 600 if ctx.quick else 20000
    lines = []
    meta = []
    for _ in range(n):
        anonymous, nodes = gen_script(r)
        text = render(anonymous, nodes)
        st = structure(anonymous, nodes)
        th = hx(text.encode())
        lines.append(f"vs-nodes {th} {st}")
        meta.append(None)
        for s in r.shuffle(SYMS)[:6]:
            lines.append(f"vs-find {hx(s)} {th} {st}")
            meta.append((anonymous, nodes, text, s, st))
    # a few hand-made scripts: rust style, escapes, parse errors
    for text, st in [
        ("{ global: foo; bar; local: *; };\n", "A -;_;gcu666f6f,gcu626172,lcu2a"),
        ("{ local: *; };\n", "A -;_;lcu2a"),
        ("V1 { global: f\\oo; };\n", "N 5631;_;gcu665c6f6f"),
        ("V1 { global: a**b; };\n", "N 5631;_;gcu612a2a62"),
        ("V1 { global: fo[; };\n", "N 5631;_;gcu666f5b"),
    ]:
        for s in SYMS[:4]:
            lines.append(f"vs-find {hx(s)} {hx(text.encode())} {st}")
            meta.append(None)
    for l in lines:
        ctx.count("op", l.split()[0])
    dis, impl, model = ctx.differential("version-script", lines)
    for l, o in zip(lines, impl):
        if o.startswith("panic") or o == "crash":
            ctx.violation("panic:" + l.split()[0], f"panic in version script handling: {o}", {"request": l})

    if dis:
        # the real code left the verified model: report it even when only known classes show up at the oracle level
        l, a, mo = dis[0]
        found = False
        if l.startswith("vs-find"):
            t = l.split()
            sp = ctx.model_eval(["spec-gnu-find " + " ".join(t[1:])])[0]
            anonymous = t[3] == "A"
            exp = sp if (sp == "none" or anonymous) else f"{int(sp[:-1]) + 1}{sp[-1]}"
            found = a.startswith("fm:") and a.split()[0][3:] != exp
        ctx.violation("correspondence:version-script", f"real code and model disagree on {len(dis)} request(s); first: impl={a!r} model={mo!r}",
                      {"request": l, "impl": a, "model": mo, "how": "echo '<request>' | /verif/.target/wvh/debug/wvh ; ... | /verif/lean/.lake/build/bin/wmdriver"},
                      found_input=found)

    # oracle: GNU precedence spec on the implementation's answers
    q = [(i, m) for i, m in enumerate(meta) if m is not None]
    spec = ctx.model_eval([f"spec-gnu-find {hx(m[3])} - {m[4]}" for _, m in q])
    reported = set()
    for (i, m), sp in zip(q, spec):
        anonymous, nodes, text, s, st = m
        out = impl[i]
        if out.startswith("rust"):
            got = "0L" if out.endswith("local:1") else "none-or-global"
            exp = sp if sp.endswith("L") else "none-or-global"
            if exp.endswith("L"):
                exp = "0L"
        else:
            fm = out.split()[0][3:] if out.startswith("fm:") else out
            got = fm
            if sp == "none" or anonymous:
                exp = sp
            else:
                exp = f"{int(sp[:-1]) + 1}{sp[-1]}"
        ctx.count("oracle", "match" if sp != "none" else "no-match")
        if got != exp:
            ctx.cov["impl_oracle_failures"] += 1
            cls = classify(nodes, s)
            replay = {"version_script": text, "symbol": s.decode(), "gnu_rule (node index incl. base, G|L)": exp, "wild find_match": out,
                      "how": f"echo '{lines[i][:60]}...' | /verif/.target/wvh/debug/wvh (full request in 'request')", "request": lines[i]}
            if cls:
                ctx.count("known-class", cls)
                if cls not in reported:
                    reported.add(cls)
                    ctx.violation(cls, WHAT[cls] + f" (symbol {s.decode()}: GNU rule {exp}, wild {got})", replay)
            elif "precedence:other" not in reported:
                reported.add("precedence:other")
                ctx.violation("precedence:other", f"find_match deviates from GNU ld's precedence: symbol {s.decode()}: GNU rule {exp}, wild {got}", replay)
    run_links(ctx, 8 if ctx.quick else 150, reported)
