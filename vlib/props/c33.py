"""C33 - --wrap redirects references exactly as GNU ld does."""
import os
import shutil

from .. import linkmodel as lm
from . import c02

NEEDS_WILD = True
LEAN_MODULES = ["WildModel.Props.C33", "WildModel.Props.C33Seq"]
THEOREMS = [
    "Wild.Link.wrap_redirects",
    "Wild.Link.real_redirects",
    "Wild.Link.unrelated_unaffected",
    "Wild.Link.definitions_unaffected",
    "Wild.Link.wrap_eq_gnu_partial",
    "Wild.Link.wrap_missing_witness",
    "Wild.Link.C33_full_false",
    "Wild.Link.overrides_repeated_witness",
    "Wild.Link.overrides_nodup_spec",
]
LEVEL = "proof"
TECHNIQUE = "Lean 4 theorems over a name-override model of apply_wrapped_symbol_overrides composed with the M-Link resolution model + whole-link differential correspondence, GNU ld as oracle"
TRUSTED = [
    "model lean/WildModel/Model/Wrap.lean (wrapLookupName/wrapTransform) of symbol_db.rs apply_wrapped_symbol_overrides, composed with Model/Link.lean; tied by whole-link correspondence `lkw` "
    "on generated programs with wrapped symbols defined/referenced across objects, archives and shared objects",
    "GNU ld 2.40 as the oracle for --wrap semantics (ld.texi: undefined references to S -> __wrap_S, to __real_S -> S)",
    "the override LOOP of apply_wrapped_symbol_overrides is modelled separately (Props/C33Seq.lean applyOverrides) and proved equal to the set-based model for duplicate-free --wrap lists; that args.wrap is duplicate-free is what fix e8951e6 establishes (tied by the repeated---wrap cases of the correspondence)",
]
RULE = "random link inputs over names S, __wrap_S, __real_S for 1-2 wrapped S; non-trivial = some reference is actually redirected; distinct by request line"
ASSUMPTIONS = ["no input defines a symbol literally named __real_S", "default-visibility references"]


def gen(r):
    nw = r.choice([1, 1, 2, 2, 3])
    # names sym_0, sym_1, sym_10: one wrapped name may be a prefix of another; the order of the --wrap options is random
    W = r.shuffle([0, 1, 10])[:nw]
    nfiles = r.range(2, 5)
    files = []
    g = 0
    for k in range(nfiles):
        kind = "obj" if k == 0 else r.choice(["obj", "obj", "ar", "so"])
        f = {"kind": kind, "entries": []}
        if kind == "ar":
            g += 1
            f.update({"whole": False, "group": g, "thin": False})
        if kind == "so":
            f["as_needed"] = False
        files.append(f)
    for s in W:
        have_def = False
        for k, f in enumerate(files):
            c = r.below(10)
            # each file: define S / define __wrap_S / reference S / reference __real_S / reference __wrap_S
            if c < 2 and k > 0:
                f["entries"].append(("D", s, r.choice(["s", "w"]), 0, False))
                have_def = True
            elif c < 4 and k > 0 and f["kind"] != "so" or (c < 4 and k > 0 and r.chance(1, 3)):
                f["entries"].append(("D", 1000 + s, "s", 0, False))
                if f["kind"] != "so" and r.chance(1, 2):
                    f["entries"].append(("U", 2000 + s, False))
            elif c < 8 and f["kind"] != "so":
                f["entries"].append(("U", s, r.chance(1, 5)))
            elif c < 9 and f["kind"] != "so":
                f["entries"].append(("U", 1000 + s, False))
    # de-duplicate (one entry per name and file)
    for f in files:
        seen = set()
        ents = []
        for en in f["entries"]:
            if en[1] in seen:
                continue
            seen.add(en[1])
            ents.append(en)
        f["entries"] = ents
    return W, files


def canon_model(files, line):
    toks = line.split()
    ren = {}
    for t in toks[0][2:].split(","):
        if t:
            a, b = t.split(">")
            k, n = a.split("/")
            ren[(int(k), int(n))] = int(b)
    rest = " ".join(toks[1:])
    bits = toks[1][2:]
    errs = toks[2][2:]
    b = lm.model_binding(files, toks[3:])
    if any(v == "dup" for v in b.values()):
        return "err:dup", ren
    if errs:
        return "err:undef", ren
    out = ["L=" + c02.mask_so(files, bits)]
    for k, f in enumerate(files):
        if f["kind"] == "so" or bits[k] == "0":
            continue
        for en in f["entries"]:
            if en[0] == "U":
                n2 = ren.get((k, en[1]), en[1])
                out.append(f"{k}.{en[1]}={c02.weak_canon(files, bits, k, en, b.get(n2, 'undef'))}")
    return " ".join(out), ren


def link(linker, d, line, W, out):
    args = ["--no-gc-sections", "-o", out] + [f"--wrap=sym_{s}" for s in W] + line
    return lm.lu.link(linker, args, cwd=d)


def run(ctx):
    r = ctx.rng
    n = 50 if ctx.quick else 350
    reqs, impl, inputs = [], [], []
    for i in range(n):
        W, files = gen(r)
        d = os.path.join(ctx.scratch, f"c{i}")
        try:
            line = lm.build_inputs(d, files)
        except RuntimeError:
            ctx.count("gen", "build-failed")
            continue
        out = os.path.join(d, "out.wild")
        req = lm.request_line(files, False).replace("lk 0", "lkw " + ",".join(map(str, W)) + " 0", 1)
        if r.chance(1, 6):
            W = W + [W[0]]          # the same --wrap given twice (build systems do that): no different from giving it once
            ctx.count("wrap-options", "repeated")
        rc, o, e = link("wild", d, line, W, out)
        ci = c02.canon_impl(files, rc, e, out)
        reqs.append(req)
        impl.append(ci)
        inputs.append((W, files, line, d))
        ctx.count("impl-outcome", ci.split()[0] if ci.startswith("err") else "linked")
    raw = ctx.model_eval(reqs)
    model = []
    redirected = []
    for (W, files, _, _), m in zip(inputs, raw):
        cm, ren = canon_model(files, m)
        model.append(cm)
        redirected.append(any(k[1] != v for k, v in ren.items()))
    idx = {q: j for j, q in enumerate(reqs)}
    dis, _, _ = ctx.differential("lkw-wrap", reqs, impl_out=impl, model_out=model, nontrivial=lambda l, a, b: redirected[idx[l]])
    ctx.count("redirected", "yes", sum(redirected))
    for i, (W, files, line, d) in enumerate(inputs):
        out = os.path.join(d, "out.ld")
        rc, o, e = link("ld", d, line, W, out)
        v = c02.canon_impl(files, rc, e, out)
        if v == "err:undef" and not impl[i].startswith("err") and any(f["kind"] == "ar" for f in files):
            # GNU ld scans archives left to right: a member that only a LATER object needs is not extracted and ld reports an
            # undefined symbol; wild (like lld) is position independent here (C03). Not a --wrap difference.
            ctx.count("oracle", "skipped-ld-archive-position")
            continue
        if not v.startswith("err") and not impl[i].startswith("err") and v.split()[0] != impl[i].split()[0]:
            # GNU ld extracts archive members while it scans the command line, looking at the names as already redirected by --wrap;
            # wild (like lld) decides from the references as written. When the two LOAD different members, "the original S" is a
            # different definition for each: that is archive loading (C03's subject), not the redirection rule.
            ctx.count("oracle", "skipped-load-set-differs")
            continue
        if v != impl[i] and not v.startswith("err:other"):
            ctx.cov["impl_oracle_failures"] += 1
            # known: --wrap=S with no __wrap_S anywhere: GNU ld reports __wrap_S undefined, wild binds to S
            no_wrap_def = any(not any(en[0] == "D" and en[1] == 1000 + s for f in files for en in f["entries"]) and
                              any(en[0] == "U" and en[1] == s for f in files for en in f["entries"]) for s in W)
            # the same defect seen through WEAK references to S: GNU ld redirects them to the (undefined) __wrap_S, which leaves them
            # unbound; wild leaves them bound to S. Recognised when the two outcomes differ only at references to such names.
            missing = {s_ for s_ in W if not any(en[0] == "D" and en[1] == 1000 + s_ for f in files for en in f["entries"])}
            only_missing_refs = False
            if no_wrap_def and not v.startswith("err") and not impl[i].startswith("err"):
                a_, b_ = impl[i].split(), v.split()
                if len(a_) == len(b_) and a_[0] == b_[0]:
                    diff = [x for x, y in zip(a_, b_) if x != y]
                    only_missing_refs = bool(diff) and all(int(x.split("=")[0].split(".")[1]) in missing for x in diff)
            if no_wrap_def and (v == "err:undef" or only_missing_refs):
                ctx.violation("wrap:missing-wrap-definition", "--wrap=S without any definition of __wrap_S: references to S stay bound to S; GNU ld redirects them and reports __wrap_S undefined",
                              {"request": reqs[i], "link_line": line, "wild": impl[i], "ld": v})
                continue
            if any(":u:" in t for t in reqs[i].split()):
                continue
            keep = os.path.join(ctx.replay_dir(), f"c33-{i}")
            shutil.copytree(d, keep, dirs_exist_ok=True)
            ctx.violation("wrap:" + reqs[i], f"--wrap binding differs from GNU ld: wild={impl[i]} ld={v}",
                          {"request": reqs[i], "link_line": line, "wrap": W, "dir": keep, "wild": impl[i], "ld": v, "model": model[i]})
    for _, _, _, d in inputs:
        shutil.rmtree(d, ignore_errors=True)
