"""C34 - linker-diff is quiet on equal binaries and catches broken relocations."""
import hashlib
import os
import shutil

from .. import binview
from .. import linkutil as lu
from .. import runner

NEEDS_WILD = True
LEAN_MODULES = ["WildModel.Props.C34"]
THEOREMS = ["Wild.DiffView.diff_self_empty", "Wild.DiffView.diff_copy_empty", "Wild.DiffView.diff_detects_single_site",
            "Wild.DiffView.decoders_proved", "Wild.DiffView.decoder_limits"]
LEVEL = "translation_validation"
TECHNIQUE = ("the two model theorems are immediate from the shape diff = compare . view; the assurance is the correspondence: the REAL linker-diff (built from "
             "/repo's working tree) is run the way wild's integration tests run it on generated binaries: self/copy comparisons must report nothing, "
             "single-site retargetings computed by an independent Python view (vlib/binview.py) must be reported")
TRUSTED = [
    "no Lean model of linker-diff's ~10k lines: Model/DiffView.lean only fixes the shape `diff a b = compare (view a) (view b)`; diff_self_empty and "
    "diff_detects_single_site are immediate in that model",
    "C13's read_value = ISA-decode theorems (re-exported as decoders_proved) cover the AArch64/RISC-V/LoongArch64 decoders linker-diff calls; "
    "decoder_limits lists the recorded non-injective / non-inverting readers (RISC-V UiType, LoongArch64 Call30)",
    "vlib/binview.py: objdump -d for instruction boundaries and printed targets; the displacement position is solved from next_ip + disp32 == target; "
    "GOT slots / data pointers from section contents and R_X86_64_RELATIVE relocations via vlib/elfread.py",
    "gcc, as, GNU ld 2.40 (reference binaries), cargo build of linker-diff",
]
RULE = ("x86-64 C/assembly programs (calls, tail jumps, lea of objects, GOT loads, function-pointer tables, data pointers, TLS) linked by the working tree's wild "
        "(with --write-layout --write-trace, as wild's own tests do) and by GNU ld as static, PIE and shared; per binary: x vs x, x vs byte-identical copy, "
        "and ~12 single-site retargetings (call, lea/mov RIP-relative, GOT slot, data pointer) each to a different symbol of the same kind; "
        "plus, per binary, a hand-written object with a .data table of 8-byte RELATIVE references (R_X86_64_PC64 `.quad sym - . + A`, R_X86_64_GOTOFF64 "
        "`.quad sym@GOTOFF + A`) to named global functions/objects and ~6 corruptions of one word each: only the high 32 bits changed (+2^32, -2^32, one "
        "flipped bit 32..63) or retargeted to another named symbol; linker-diff must report a difference (it does so under the key rel.<R>.<R>); "
        "distinct by (binary, site, new target / corruption)")
ASSUMPTIONS = ["x86-64 only on the implementation side (no AArch64/RISC-V/LoongArch64 execution environment for corrupted binaries is needed, but no "
               "cross-linked binaries are generated in the quick tier)",
               "a retargeting moves the referent to another named symbol of the same kind (function->function, object->object) at a different address"]

LDIFF_DIR = os.path.join(runner.BUILD_ROOT, "ldiff")     # per checkout (WILD_REPO runs build into .target/alt/<name>/ldiff)
LDIFF = os.path.join(LDIFF_DIR, "debug", "linker-diff")
WORKSPACE_CRATES = ["linker-diff", "linker-layout", "linker-trace", "linker-utils"]


def build_ldiff():
    """cargo names artifacts and dep-info by workspace-relative paths and decides freshness by mtime, so a target directory that was ever used for
    ANOTHER checkout (a scratch copy with an edited, newer asm_diff.rs) keeps serving that checkout's linker-diff for /repo.  Hence: one target directory
    per checkout, and a stamp naming the checkout whose sources built it; on a mismatch the workspace crates are rebuilt from scratch."""
    with runner.Lock("cargo-ldiff" if runner.ALT is None else "cargo-ldiff-" + os.path.basename(runner.ALT)):
        manifest = os.path.join(runner.REPO, "Cargo.toml")
        stamp = os.path.join(LDIFF_DIR, "built-from")
        if os.path.isdir(LDIFF_DIR) and (not os.path.exists(stamp) or open(stamp).read().strip() != runner.REPO):
            args = ["cargo", "clean", "--offline", "--manifest-path", manifest, "--target-dir", LDIFF_DIR]
            for c in WORKSPACE_CRATES:
                args += ["-p", c]
            runner.sh(args)
        os.makedirs(LDIFF_DIR, exist_ok=True)
        with open(stamp, "w") as f:
            f.write(runner.REPO + "\n")
        rc, out = runner.sh(["cargo", "build", "--offline", "--manifest-path", manifest, "-p", "linker-diff", "--target-dir", LDIFF_DIR])
    if rc != 0:
        raise runner.BuildError("cargo build of linker-diff failed:\n" + out[-3000:])


def gen_sources(r, i):
    nf = r.range(3, 6)
    c = [r.below(1000) for _ in range(12)]
    a = ["typedef unsigned long u64;\n"]
    a.append(f"u64 ga = {c[0]}; u64 gb = {c[1]}; u64 gc_[4] = {{1,2,3,{c[2]}}}; static u64 sa = {c[3]}; static u64 sb[3] = {{{c[4]},5,6}};\n")
    a.append("__thread u64 tva = 3; __thread u64 tvb = 4;\n")
    a.append("extern u64 ext_a, ext_b; extern u64 ext_f(u64); extern u64 ext_g(u64);\n")
    for k in range(nf):
        a.append(f"__attribute__((noinline)) u64 fn{k}(u64 x) {{ return x * {c[5 + k % 5] | 1} + ga + sb[{k % 3}]; }}\n")
        a.append(f"__attribute__((noinline)) static u64 sf{k}(u64 x) {{ return (x ^ {c[k % 7]}) + sa + gb; }}\n")
    a.append("u64 (*const ftab[])(u64) = {" + ", ".join(f"fn{k}" for k in range(nf)) + ", " + ", ".join(f"sf{k}" for k in range(nf)) + "};\n")
    a.append("u64 *ptab[] = { &ga, &gb, &gc_[2], &sa, &sb[1], &ext_a };\n")
    a.append("__attribute__((constructor)) static void ctor_a(void) { ga += 1; }\n__attribute__((constructor)) static void ctor_b(void) { gb += 2; }\n")
    body = ["u64 v = x;"]
    for k in range(nf):
        body.append(f"v += fn{k}(v) + sf{k}(v);")
    body.append(f"v += ftab[x % {2 * nf}](v) + *ptab[x % 6];")
    body.append("v += ext_f(v) + ext_a + ext_g(v) + ext_b; tva += v; tvb ^= v; v += tva + tvb;")
    a.append("u64 driver(u64 x) { " + " ".join(body) + " return v; }\n")
    a.append(f"u64 tail{i}(u64 x) {{ return fn0(x + 1); }}\n")
    main = "".join(a)
    other = ("typedef unsigned long u64;\nu64 ext_a = 11; u64 ext_b = 22;\n"
             "__attribute__((noinline)) u64 ext_f(u64 x) { return x + ext_a; }\n__attribute__((noinline)) u64 ext_g(u64 x) { return x ^ ext_b; }\n"
             "u64 driver(u64);\nvoid _start(void) { u64 v = driver(5); __asm__ volatile(\"syscall\" :: \"a\"(60), \"D\"(v & 0x7f)); }\n")
    return main, other


def gen_rel64(r, nf, shared):
    """Hand-written object with a .data table of 8-byte RELATIVE references to named global symbols (what `.quad sym - .` and the large code model's
    `sym@GOTOFF` produce), kept alive through .init_array, with the reference to _GLOBAL_OFFSET_TABLE_ that GOTOFF code always carries.
    In a shared object the referents must not be preemptible: there only the object's own PROTECTED globals are used.  -> (asm text, entries)"""
    own_d, own_f = ["r64_a", "r64_b"], ["r64_f"]
    if shared:
        data_t, func_t = own_d, own_f
    else:
        data_t = own_d + ["ga", "gb", "gc_", "ext_a", "ext_b"]
        func_t = own_f + [f"fn{k}" for k in range(nf)] + ["ext_f", "ext_g", "driver"]
    entries = []
    for form in ("pc64", "gotoff64"):
        entries.append((form, r.choice(data_t), 0))
        entries.append((form, r.choice(func_t), 0))
        entries.append((form, r.choice(data_t + func_t), r.choice([0, 4, 8, 16, -8])))
    for _ in range(r.range(0, 3)):
        entries.append((r.choice(["pc64", "gotoff64"]), r.choice(data_t + func_t), r.choice([0, 0, 8, -4])))
    order = list(range(len(entries)))
    for i in range(len(order) - 1, 0, -1):
        j = r.below(i + 1)
        order[i], order[j] = order[j], order[i]
    entries = [entries[i] for i in order]
    vis = ".protected" if shared else "# default visibility:"
    # own referents in a section of their own: `sym - .` inside one section is folded by the assembler and leaves no relocation
    a = ["    .section .data.r64,\"aw\",@progbits\n    .p2align 3\n"]
    for n in own_d:
        a.append(f"    .globl {n}\n    {vis} {n}\n    .type {n},@object\n{n}:\n    .quad {r.below(1000)}\n    .size {n}, 8\n")
    a.append("    .data\n    .p2align 3\n    .globl rel64_tab\n    .type rel64_tab,@object\nrel64_tab:\n.Lrel64_tab:\n")
    for form, n, add in entries:
        a.append(f"    .quad {n} - . {add:+d}\n" if form == "pc64" else f"    .quad {n}@GOTOFF {add:+d}\n")
    a.append("    .size rel64_tab, . - rel64_tab\n    .text\n"
             f"    .globl r64_f\n    {vis} r64_f\n    .type r64_f,@function\nr64_f:\n.Lr64_f:\n"
             "    lea .Lrel64_tab(%rip), %rax\n    lea _GLOBAL_OFFSET_TABLE_(%rip), %rdx\n    add (%rax), %rdx\n    ret\n    .size r64_f, . - r64_f\n"
             "    .section .init_array,\"aw\"\n    .p2align 3\n    .quad .Lr64_f\n")
    # referents WITHOUT size or type (plain assembly labels, st_size = 0): a call and a rip-relative reference to them
    hv = ".hidden" if shared else "# default visibility:"
    a.append(f"    .text\n    .globl nz_user\n    {hv} nz_user\n    .type nz_user,@function\nnz_user:\n    call nz_fn\n    lea nz_dat(%rip), %rax\n"
             f"    mov (%rax), %rax\n    ret\n    .size nz_user, . - nz_user\n    .globl nz_fn\n    {hv} nz_fn\nnz_fn:\n    mov $7, %eax\n    ret\n"
             f"    .data\n    .p2align 3\n    .globl nz_dat\n    {hv} nz_dat\nnz_dat:\n    .quad 5\n"
             "    .section .init_array,\"aw\"\n    .quad nz_user\n")
    return "".join(a), entries


MODES = [
    ("static", ["-fno-pic"], []),
    ("static-pic", ["-fPIC"], []),
    ("pie", ["-fpie"], ["-pie"]),
    ("pie-pic", ["-fPIC"], ["-pie"]),
    ("shared", ["-fPIC"], ["-shared"]),
]


def run_ldiff(file, ref, extra=()):
    rc, out, err = lu.run([LDIFF, "--wild-defaults", "--colour", "never"] + list(extra) + ["--ref", ref, file], timeout=120)
    return rc, out, err


def quiet(rc, out):
    return rc == 0 and "No differences or validation failures detected" in out


def copy_with_sidecars(src, dst):
    shutil.copy2(src, dst)
    for ext in (".layout", ".trace"):
        if os.path.exists(src + ext):
            shutil.copy2(src + ext, dst + ext)


def run(ctx):
    build_ldiff()
    r0 = ctx.rng
    nbin = 10 if ctx.quick else 120
    ncorr = 12 if ctx.quick else 40
    for bi in range(nbin):
        mode, cflags, lflags = MODES[bi % len(MODES)]
        r = r0.fork()   # one stream per binary: a skipped binary does not shift the choices made for the others
        d = os.path.join(ctx.scratch, f"b{bi}")
        os.makedirs(d, exist_ok=True)
        main, other = gen_sources(r.fork(), bi)
        rr = runner.Rng((ctx.seed * 0x9E3779B1 + 0x3400 + bi) & ((1 << 64) - 1))   # own stream: does not shift the choices made for the older site kinds
        rel64_asm, rel64_entries = gen_rel64(rr, main.count("__attribute__((noinline)) u64 fn"), mode == "shared")
        opt = r.choice(["-O1", "-O2", "-Os"])
        try:
            o1 = lu.cc_obj(d, "main", main, flags=[opt, "-ffreestanding", "-fno-stack-protector", "-fno-builtin"] + cflags)
            o2 = lu.cc_obj(d, "other", other, flags=[opt, "-ffreestanding", "-fno-stack-protector", "-fno-builtin"] + cflags)
            o3 = lu.asm_obj(d, "rel64", rel64_asm)
        except RuntimeError as ex:
            ctx.count("gen", "compile-failed")
            continue
        x = os.path.join(d, "x.wild")
        ref = os.path.join(d, "x.ld")
        rcw, _, ew = lu.link("wild", lflags + ["--write-layout", "--write-trace", "-o", x, o2, o1, o3], cwd=d)
        rcl, _, el = lu.link("ld", lflags + ["-o", ref, o2, o1, o3], cwd=d)
        if rcw != 0 or rcl != 0:
            ctx.count("gen", "link-failed")
            ctx.sample({"link failed": (ew or el)[:300], "mode": mode})
            continue
        ctx.count("mode", mode)
        cmd_base = f"{LDIFF} --wild-defaults --ref <ref> <file>"
        # (i) quiet on equal inputs
        cp = os.path.join(d, "x.copy")
        copy_with_sidecars(x, cp)
        for name, f, rf in (("self", x, x), ("copy-as-ref", x, cp), ("copy-as-file", cp, x)):
            rc, out, err = run_ldiff(f, rf)
            ctx.note_case(("quiet", bi, name))
            ctx.count("quiet", "ok" if quiet(rc, out) else "reported")
            if not quiet(rc, out):
                ctx.cov["impl_oracle_failures"] += 1
                keep = os.path.join(ctx.replay_dir(), f"quiet-{mode}-{bi}")
                shutil.copytree(d, keep, dirs_exist_ok=True)
                ctx.violation(f"c34:quiet:{mode}:{name}", f"linker-diff reports a problem comparing a binary with {'itself' if name == 'self' else 'a byte-identical copy'} ({mode})",
                              {"dir": keep, "command": cmd_base.replace("<ref>", os.path.basename(rf)).replace("<file>", os.path.basename(f)), "rc": rc,
                               "report": (out + err)[:1500]})
        # reference for the corruption runs: GNU ld's binary when the uncorrupted pair is clean, else the uncorrupted wild binary
        rc0, out0, err0 = run_ldiff(x, ref)
        refs = [("wild-uncorrupted", cp)]
        if quiet(rc0, out0):
            refs.append(("gnu-ld", ref))
            ctx.count("baseline", "wild-vs-ld-clean")
        else:
            ctx.count("baseline", "wild-vs-ld-reported")
            ctx.sample({"wild vs GNU ld reported (not C34's subject; GNU ld not used as reference here)": out0[:400], "mode": mode})
        # (ii) single-site corruptions
        e, sites = binview.view(x)
        data = open(x, "rb").read()
        syms = binview.symbols(e)
        funcs = sorted((a, n) for n, (a, sz, t, b) in syms.items() if t == 2 and not n.startswith("_"))
        objs = sorted((a, n) for n, (a, sz, t, b) in syms.items() if t == 1)
        by_kind = {}
        for s in sites:
            by_kind.setdefault(s.kind, []).append(s)
        for k, v in by_kind.items():
            ctx.count("sites-in-view", k, len(v))
        plan = []
        kinds = [k for k in ("call", "rip", "got", "data", "jmp") if by_kind.get(k)]
        tries = 0
        while len(plan) < ncorr and kinds and tries < 200:
            tries += 1
            k = kinds[len(plan) % len(kinds)] if tries <= ncorr * 2 else r.choice(kinds)
            s = r.choice(by_kind[k])
            is_func = any(a == s.target for a, n in funcs)
            pool = funcs if (k in ("call", "jmp") or is_func) else objs
            pool = [(a, n) for a, n in pool if a != s.target]
            if not pool:
                continue
            na, nn = r.choice(pool)
            if any(p[0] is s and p[1] == na for p in plan):
                continue
            plan.append((s, na, nn))
        # sites whose referent is a symbol without size (an assembly label) are always part of the plan
        zero = {a for n, (a, sz, t, b) in syms.items() if sz == 0 and n in ("nz_fn", "nz_dat")}
        for s in [s for s in sites if s.target in zero and s.kind in ("call", "rip")][:2]:
            pool = [(a, n) for a, n in (funcs if s.kind == "call" else objs) if a != s.target]
            if pool:
                na, nn = r.choice(pool)
                plan.insert(0, (s, na, nn))
                ctx.count("sites-in-view", "referent-without-size")
        names = binview.addr_to_names(e)
        for ci, (s, na, nn) in enumerate(plan):
            nb = binview.retarget(e, data, s, na)
            if nb is None or nb == data:
                ctx.count("corruption", "not-applicable")
                continue
            cx = os.path.join(d, f"x.c{ci}")
            copy_with_sidecars(x, cx)
            with open(cx, "wb") as f:
                f.write(nb)
            os.chmod(cx, 0o755)
            old = ",".join(names.get(s.target, ["?"]))
            detected_by = []
            for rname, rf in refs:
                rc, out, err = run_ldiff(cx, rf)
                if not quiet(rc, out):
                    detected_by.append(rname)
            ctx.note_case(("corrupt", bi, s.kind, s.addr, na))
            ctx.count("corruption-" + s.kind, "detected" if len(detected_by) == len(refs) else "missed")
            if len(detected_by) != len(refs):
                ctx.cov["impl_oracle_failures"] += 1
                missed = [n for n, _ in refs if n not in detected_by]
                # class of the ORIGINAL referent: linker-diff resolves referents through named symbols
                olds = names.get(s.target, [])
                if not olds:
                    rcls = "unnamed-referent"
                elif all(syms[n][3] == 0 for n in olds):
                    rcls = "local-referent"
                else:
                    rcls = "global-referent"
                dyn = "relative-reloc" if s.rela_index is not None else "link-time-value"
                cls = f"c34:missed:{s.kind}:{rcls}:{dyn}"
                keep = os.path.join(ctx.replay_dir(), f"missed-{mode}-{bi}-{ci}")
                os.makedirs(keep, exist_ok=True)
                for f in [x, x + ".layout", x + ".trace", ref, cx, o1, o2, os.path.join(d, "main.c"), os.path.join(d, "other.c")]:
                    if os.path.exists(f):
                        shutil.copy2(f, keep)
                for ext in (".layout", ".trace"):
                    if os.path.exists(cx + ext):
                        shutil.copy2(cx + ext, keep)
                ctx.violation(cls, f"linker-diff silent on a retargeted {s.kind} site ({mode}): {s.owner} @0x{s.addr:x} {old} -> {nn} (reference: {', '.join(missed)})",
                              {"dir": keep, "binary": os.path.basename(x), "corrupted": os.path.basename(cx), "site": repr(s), "old_target": old, "new_target": nn,
                               "references_silent": missed, "command": cmd_base, "mode": mode,
                               "note": "the .layout file names the input objects by absolute path: to replay, relink main.o/other.o with wild "
                                       + " ".join(lflags) + " --write-layout --write-trace -o x.wild other.o main.o, re-apply the patch (site/new target above), "
                                       "then run the command",
                               "patch": {"file_offset_of_field": e.vaddr_to_off(s.field_addr), "field_size": s.size, "new_target": hex(na), "pc_relative_end": s.pcrel_end}})
            os.unlink(cx)
        # (iii) 8-byte RELATIVE references to named globals in .data: high-half-only corruptions and retargetings
        rsites, problems = binview.rel64_sites(e, "rel64_tab", rel64_entries)
        for pb in problems:
            ctx.count("rel64-view", "entry-not-usable")
            ctx.sample({"rel64 entry not usable (wild's stored value is not S+A-P / S+A-GOT: not C34's subject)": pb, "mode": mode})
        if len(rsites) < 4:
            ctx.broken.append(f"exploration: binary {bi} ({mode}) has only {len(rsites)} usable 8-byte relative sites: {problems[:3]}")
        nrel = 6 if ctx.quick else 16
        hows = ["high32-add", "retarget", "high32-bit", "high32-sub", "retarget", "high32-bit"]
        by_form = {f: [s for s in rsites if s.form == f] for f in ("pc64", "gotoff64")}
        for ri in range(nrel if rsites else 0):
            cand = by_form[("pc64", "gotoff64")[ri % 2]] or rsites
            s = rr.choice(cand)
            how = hows[ri % len(hows)] if ri < len(hows) else rr.choice(hows)
            bit, na, nn = None, None, None
            if how == "high32-bit":
                bit = rr.range(32, 63)
            if how == "retarget":
                is_func = any(a == s.target for a, n in funcs)
                pool = [(a, n) for a, n in (funcs if is_func else objs) if abs(a - s.target) > 64]
                if not pool:
                    ctx.count("corruption", "not-applicable")
                    continue
                na, nn = rr.choice(pool)
            res = binview.corrupt_rel64(e, data, s, how, new_target=na, bit=bit)
            if res is None:
                ctx.count("corruption", "not-applicable")
                continue
            nb, newval = res
            cx = os.path.join(d, f"x.r{ri}")
            copy_with_sidecars(x, cx)
            with open(cx, "wb") as f:
                f.write(nb)
            os.chmod(cx, 0o755)
            silent, reports = [], {}
            for rname, rf in refs:
                rc, out, err = run_ldiff(cx, rf)
                reports[rname] = out[:600]
                if quiet(rc, out):
                    silent.append(rname)
                else:
                    ctx.count("rel64-report-key", f"rel.{s.reloc}" if f"rel.{s.reloc}" in out else ("literal-byte-mismatch" if "literal-byte-mismatch" in out else "other"))
            cls = "high32" if how.startswith("high32") else "retarget"
            ctx.note_case(("corrupt-rel64", bi, s.addr, how, bit, na))
            ctx.count("corruption-rel64-" + s.form + "-" + cls, "missed" if silent else "detected")
            ctx.count("rel64-referent", "function" if any(a == s.target for a, n in funcs) else "object")
            if silent:
                ctx.cov["impl_oracle_failures"] += 1
                keep = os.path.join(ctx.replay_dir(), f"missed-rel64-{mode}-{bi}-{ri}")
                os.makedirs(keep, exist_ok=True)
                for f in [x, x + ".layout", x + ".trace", ref, cx, cx + ".layout", cx + ".trace", o1, o2, o3, os.path.join(d, "main.c"), os.path.join(d, "other.c"),
                          os.path.join(d, "rel64.s")]:
                    if os.path.exists(f):
                        shutil.copy2(f, keep)
                ctx.violation(f"c34:missed:rel64:{s.reloc}:{cls}",
                              f"linker-diff silent on a corrupted 8-byte relative reference ({mode}): {s.reloc} to {s.target_name}{s.addend:+d} in rel64_tab @0x{s.addr:x}: "
                              f"stored 0x{s.stored:016x} -> 0x{newval:016x} ({how}{'' if bit is None else ' bit ' + str(bit)}{'' if nn is None else ' to ' + nn}); "
                              f"reference: {', '.join(silent)}",
                              {"dir": keep, "binary": os.path.basename(x), "corrupted": os.path.basename(cx), "site": repr(s), "relocation": s.reloc,
                               "referent": s.target_name, "addend": s.addend, "corruption": how, "bit": bit, "new_target": nn,
                               "old_value": hex(s.stored), "new_value": hex(newval), "file_offset_of_field": e.vaddr_to_off(s.field_addr),
                               "references_silent": silent, "command": cmd_base, "mode": mode, "reports": reports,
                               "note": "the .layout file names the input objects by absolute path: to replay, relink with wild " + " ".join(lflags) +
                                       " --write-layout --write-trace -o x.wild other.o main.o rel64.o, write new_value (8 bytes LE) at file_offset_of_field, run the command"})
            os.unlink(cx)
        shutil.rmtree(d, ignore_errors=True)
