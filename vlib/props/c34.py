"""C34 - linker-diff is quiet on equal binaries and catches broken relocations."""
import hashlib
import os
import shutil

from .. import binview
from .. import linkutil as lu
from .. import runner

NEEDS_WILD = True
LEAN_MODULES = ["WildModel.Props.C34"]
THEOREMS = ["Wild.DiffView.diff_self_empty", "Wild.DiffView.diff_copy_empty", "Wild.DiffView.diff_detects_single_site",
            "Wild.DiffView.decoders_proved", "Wild.DiffView.decoder_limits"]
LEVEL = "translation_validation"
TECHNIQUE = ("the two model theorems are immediate from the shape diff = compare . view; the assurance is the correspondence: the REAL linker-diff (built from "
             "/repo's working tree) is run the way wild's integration tests run it on generated binaries: self/copy comparisons must report nothing, "
             "single-site retargetings computed by an independent Python view (vlib/binview.py) must be reported")
TRUSTED = [
    "no Lean model of linker-diff's ~10k lines: Model/DiffView.lean only fixes the shape `diff a b = compare (view a) (view b)`; diff_self_empty and "
    "diff_detects_single_site are immediate in that model",
    "C13's read_value = ISA-decode theorems (re-exported as decoders_proved) cover the AArch64/RISC-V/LoongArch64 decoders linker-diff calls; "
    "decoder_limits lists the recorded non-injective / non-inverting readers (RISC-V UiType, LoongArch64 Call30)",
    "vlib/binview.py: objdump -d for instruction boundaries and printed targets; the displacement position is solved from next_ip + disp32 == target; "
    "GOT slots / data pointers from section contents and R_X86_64_RELATIVE relocations via vlib/elfread.py",
    "gcc, as, GNU ld 2.40 (reference binaries), cargo build of linker-diff",
]
RULE = ("x86-64 C/assembly programs (calls, tail jumps, lea of objects, GOT loads, function-pointer tables, data pointers, TLS) linked by the working tree's wild "
        "(with --write-layout --write-trace, as wild's own tests do) and by GNU ld as static, PIE and shared; per binary: x vs x, x vs byte-identical copy, "
        "and ~12 single-site retargetings (call, lea/mov RIP-relative, GOT slot, data pointer) each to a different symbol of the same kind; "
        "distinct by (binary, site, new target)")
ASSUMPTIONS = ["x86-64 only on the implementation side (no AArch64/RISC-V/LoongArch64 execution environment for corrupted binaries is needed, but no "
               "cross-linked binaries are generated in the quick tier)",
               "a retargeting moves the referent to another named symbol of the same kind (function->function, object->object) at a different address"]

LDIFF = os.path.join(runner.TARGET, "ldiff", "debug", "linker-diff")


def build_ldiff():
    with runner.Lock("cargo-ldiff"):
        rc, out = runner.sh(["cargo", "build", "--offline", "--manifest-path", os.path.join(runner.REPO, "Cargo.toml"), "-p", "linker-diff",
                             "--target-dir", os.path.join(runner.TARGET, "ldiff")])
    if rc != 0:
        raise runner.BuildError("cargo build of linker-diff failed:\n" + out[-3000:])


def gen_sources(r, i):
    nf = r.range(3, 6)
    c = [r.below(1000) for _ in range(12)]
    a = ["typedef unsigned long u64;\n"]
    a.append(f"u64 ga = {c[0]}; u64 gb = {c[1]}; u64 gc_[4] = {{1,2,3,{c[2]}}}; static u64 sa = {c[3]}; static u64 sb[3] = {{{c[4]},5,6}};\n")
    a.append("__thread u64 tva = 3; __thread u64 tvb = 4;\n")
    a.append("extern u64 ext_a, ext_b; extern u64 ext_f(u64); extern u64 ext_g(u64);\n")
    for k in range(nf):
        a.append(f"__attribute__((noinline)) u64 fn{k}(u64 x) {{ return x * {c[5 + k % 5] | 1} + ga + sb[{k % 3}]; }}\n")
        a.append(f"__attribute__((noinline)) static u64 sf{k}(u64 x) {{ return (x ^ {c[k % 7]}) + sa + gb; }}\n")
    a.append("u64 (*const ftab[])(u64) = {" + ", ".join(f"fn{k}" for k in range(nf)) + ", " + ", ".join(f"sf{k}" for k in range(nf)) + "};\n")
    a.append("u64 *ptab[] = { &ga, &gb, &gc_[2], &sa, &sb[1], &ext_a };\n")
    a.append("__attribute__((constructor)) static void ctor_a(void) { ga += 1; }\n__attribute__((constructor)) static void ctor_b(void) { gb += 2; }\n")
    body = ["u64 v = x;"]
    for k in range(nf):
        body.append(f"v += fn{k}(v) + sf{k}(v);")
    body.append(f"v += ftab[x % {2 * nf}](v) + *ptab[x % 6];")
    body.append("v += ext_f(v) + ext_a + ext_g(v) + ext_b; tva += v; tvb ^= v; v += tva + tvb;")
    a.append("u64 driver(u64 x) { " + " ".join(body) + " return v; }\n")
    a.append(f"u64 tail{i}(u64 x) {{ return fn0(x + 1); }}\n")
    main = "".join(a)
    other = ("typedef unsigned long u64;\nu64 ext_a = 11; u64 ext_b = 22;\n"
             "__attribute__((noinline)) u64 ext_f(u64 x) { return x + ext_a; }\n__attribute__((noinline)) u64 ext_g(u64 x) { return x ^ ext_b; }\n"
             "u64 driver(u64);\nvoid _start(void) { u64 v = driver(5); __asm__ volatile(\"syscall\" :: \"a\"(60), \"D\"(v & 0x7f)); }\n")
    return main, other


MODES = [
    ("static", ["-fno-pic"], []),
    ("static-pic", ["-fPIC"], []),
    ("pie", ["-fpie"], ["-pie"]),
    ("pie-pic", ["-fPIC"], ["-pie"]),
    ("shared", ["-fPIC"], ["-shared"]),
]


def run_ldiff(file, ref, extra=()):
    rc, out, err = lu.run([LDIFF, "--wild-defaults", "--colour", "never"] + list(extra) + ["--ref", ref, file], timeout=120)
    return rc, out, err


def quiet(rc, out):
    return rc == 0 and "No differences or validation failures detected" in out


def copy_with_sidecars(src, dst):
    shutil.copy2(src, dst)
    for ext in (".layout", ".trace"):
        if os.path.exists(src + ext):
            shutil.copy2(src + ext, dst + ext)


def run(ctx):
    build_ldiff()
    r0 = ctx.rng
    nbin = 10 if ctx.quick else 120
    ncorr = 12 if ctx.quick else 40
    for bi in range(nbin):
        mode, cflags, lflags = MODES[bi % len(MODES)]
        r = r0.fork()   # one stream per binary: a skipped binary does not shift the choices made for the others
        d = os.path.join(ctx.scratch, f"b{bi}")
        os.makedirs(d, exist_ok=True)
        main, other = gen_sources(r.fork(), bi)
        opt = r.choice(["-O1", "-O2", "-Os"])
        try:
            o1 = lu.cc_obj(d, "main", main, flags=[opt, "-ffreestanding", "-fno-stack-protector", "-fno-builtin"] + cflags)
            o2 = lu.cc_obj(d, "other", other, flags=[opt, "-ffreestanding", "-fno-stack-protector", "-fno-builtin"] + cflags)
        except RuntimeError as ex:
            ctx.count("gen", "compile-failed")
            continue
        x = os.path.join(d, "x.wild")
        ref = os.path.join(d, "x.ld")
        rcw, _, ew = lu.link("wild", lflags + ["--write-layout", "--write-trace", "-o", x, o2, o1], cwd=d)
        rcl, _, el = lu.link("ld", lflags + ["-o", ref, o2, o1], cwd=d)
        if rcw != 0 or rcl != 0:
            ctx.count("gen", "link-failed")
            ctx.sample({"link failed": (ew or el)[:300], "mode": mode})
            continue
        ctx.count("mode", mode)
        cmd_base = f"{LDIFF} --wild-defaults --ref <ref> <file>"
        # (i) quiet on equal inputs
        cp = os.path.join(d, "x.copy")
        copy_with_sidecars(x, cp)
        for name, f, rf in (("self", x, x), ("copy-as-ref", x, cp), ("copy-as-file", cp, x)):
            rc, out, err = run_ldiff(f, rf)
            ctx.note_case(("quiet", bi, name))
            ctx.count("quiet", "ok" if quiet(rc, out) else "reported")
            if not quiet(rc, out):
                ctx.cov["impl_oracle_failures"] += 1
                keep = os.path.join(ctx.replay_dir(), f"quiet-{mode}-{bi}")
                shutil.copytree(d, keep, dirs_exist_ok=True)
                ctx.violation(f"c34:quiet:{mode}:{name}", f"linker-diff reports a problem comparing a binary with {'itself' if name == 'self' else 'a byte-identical copy'} ({mode})",
                              {"dir": keep, "command": cmd_base.replace("<ref>", os.path.basename(rf)).replace("<file>", os.path.basename(f)), "rc": rc,
                               "report": (out + err)[:1500]})
        # reference for the corruption runs: GNU ld's binary when the uncorrupted pair is clean, else the uncorrupted wild binary
        rc0, out0, err0 = run_ldiff(x, ref)
        refs = [("wild-uncorrupted", cp)]
        if quiet(rc0, out0):
            refs.append(("gnu-ld", ref))
            ctx.count("baseline", "wild-vs-ld-clean")
        else:
            ctx.count("baseline", "wild-vs-ld-reported")
            ctx.sample({"wild vs GNU ld reported (not C34's subject; GNU ld not used as reference here)": out0[:400], "mode": mode})
        # (ii) single-site corruptions
        e, sites = binview.view(x)
        data = open(x, "rb").read()
        syms = binview.symbols(e)
        funcs = sorted((a, n) for n, (a, sz, t, b) in syms.items() if t == 2 and not n.startswith("_"))
        objs = sorted((a, n) for n, (a, sz, t, b) in syms.items() if t == 1)
        by_kind = {}
        for s in sites:
            by_kind.setdefault(s.kind, []).append(s)
        for k, v in by_kind.items():
            ctx.count("sites-in-view", k, len(v))
        plan = []
        kinds = [k for k in ("call", "rip", "got", "data", "jmp") if by_kind.get(k)]
        tries = 0
        while len(plan) < ncorr and kinds and tries < 200:
            tries += 1
            k = kinds[len(plan) % len(kinds)] if tries <= ncorr * 2 else r.choice(kinds)
            s = r.choice(by_kind[k])
            is_func = any(a == s.target for a, n in funcs)
            pool = funcs if (k in ("call", "jmp") or is_func) else objs
            pool = [(a, n) for a, n in pool if a != s.target]
            if not pool:
                continue
            na, nn = r.choice(pool)
            if any(p[0] is s and p[1] == na for p in plan):
                continue
            plan.append((s, na, nn))
        names = binview.addr_to_names(e)
        for ci, (s, na, nn) in enumerate(plan):
            nb = binview.retarget(e, data, s, na)
            if nb is None or nb == data:
                ctx.count("corruption", "not-applicable")
                continue
            cx = os.path.join(d, f"x.c{ci}")
            copy_with_sidecars(x, cx)
            with open(cx, "wb") as f:
                f.write(nb)
            os.chmod(cx, 0o755)
            old = ",".join(names.get(s.target, ["?"]))
            detected_by = []
            for rname, rf in refs:
                rc, out, err = run_ldiff(cx, rf)
                if not quiet(rc, out):
                    detected_by.append(rname)
            ctx.note_case(("corrupt", bi, s.kind, s.addr, na))
            ctx.count("corruption-" + s.kind, "detected" if len(detected_by) == len(refs) else "missed")
            if len(detected_by) != len(refs):
                ctx.cov["impl_oracle_failures"] += 1
                missed = [n for n, _ in refs if n not in detected_by]
                # class of the ORIGINAL referent: linker-diff resolves referents through named symbols
                olds = names.get(s.target, [])
                if not olds:
                    rcls = "unnamed-referent"
                elif all(syms[n][3] == 0 for n in olds):
                    rcls = "local-referent"
                else:
                    rcls = "global-referent"
                dyn = "relative-reloc" if s.rela_index is not None else "link-time-value"
                cls = f"c34:missed:{s.kind}:{rcls}:{dyn}"
                keep = os.path.join(ctx.replay_dir(), f"missed-{mode}-{bi}-{ci}")
                os.makedirs(keep, exist_ok=True)
                for f in [x, x + ".layout", x + ".trace", ref, cx, o1, o2, os.path.join(d, "main.c"), os.path.join(d, "other.c")]:
                    if os.path.exists(f):
                        shutil.copy2(f, keep)
                for ext in (".layout", ".trace"):
                    if os.path.exists(cx + ext):
                        shutil.copy2(cx + ext, keep)
                ctx.violation(cls, f"linker-diff silent on a retargeted {s.kind} site ({mode}): {s.owner} @0x{s.addr:x} {old} -> {nn} (reference: {', '.join(missed)})",
                              {"dir": keep, "binary": os.path.basename(x), "corrupted": os.path.basename(cx), "site": repr(s), "old_target": old, "new_target": nn,
                               "references_silent": missed, "command": cmd_base, "mode": mode,
                               "note": "the .layout file names the input objects by absolute path: to replay, relink main.o/other.o with wild "
                                       + " ".join(lflags) + " --write-layout --write-trace -o x.wild other.o main.o, re-apply the patch (site/new target above), "
                                       "then run the command",
                               "patch": {"file_offset_of_field": e.vaddr_to_off(s.field_addr), "field_size": s.size, "new_target": hex(na), "pc_relative_end": s.pcrel_end}})
            os.unlink(cx)
        shutil.rmtree(d, ignore_errors=True)
