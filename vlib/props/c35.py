"""C35 - Jobserver tokens are conserved.

Proof (lean/WildModel/Props/C35.lean over lean/WildModel/Model/Jobserver.lean) tied to /repo end-to-end: the check is a real
GNU-make-style jobserver (a pipe, or a fifo, pre-filled with N distinct token bytes, N = 0..8, announced through MAKEFLAGS);
it runs the hooked wild binary (success / error / panic, fork and --no-fork), stops the link process at a fault point to
read the pool and the thread count mid-link, reaps every descendant (the checker is a child subreaper, so the detached
worker is waited for, not guessed at), and then counts the tokens left in the pipe.
"""
import ctypes
import fcntl
import os
import signal
import subprocess
import termios
import time
import array

from vlib import runner

NEEDS_WILD = True
LEAN_MODULES = ["WildModel.Props.C35"]
THEOREMS = [
    "Wild.Jobserver.threads_le_tokens_plus_one",
    "Wild.Jobserver.tokens_conserved",
    "Wild.Jobserver.acquires_all",
    "Wild.Jobserver.acquireLoop_conserves",
    "Wild.Jobserver.dead_process_loses_tokens",
    "Wild.Jobserver.explicit_threads_take_no_tokens",
    "Wild.Jobserver.old_zero_tokens_many_threads",
    "Wild.Jobserver.old_violates_thread_bound",
    "Wild.Jobserver.exit_inside_leaks",
    "Wild.Jobserver.not_conserved_for_exit_inside",
]
LEVEL = "proof"
TRUSTED = [
    "hand-written model lean/WildModel/Model/Jobserver.lean of args.rs::activate_thread_pool / ThreadPool drop and of which function owns "
    "the ThreadPool local in subprocess.rs / lib.rs::run, tied by end-to-end runs under a real jobserver pipe/fifo (correspondence js-run)",
    "MODELLED, not verified: Rust scope semantics (locals dropped on return, `?` and unwinding; not on process::exit/abort/fatal signal), "
    "the jobserver crate 0.1.34 (try_acquire = non-blocking 1-byte read, Drop for Acquired writes the byte back), rayon's global pool "
    "(num_threads workers; with one thread the caller is the worker), the kernel's pipe",
    "EXCLUDED by the property: abort, allocation failure, fatal signals (a dead process cannot return tokens; theorem "
    "dead_process_loses_tokens says exactly the held tokens are lost; observed the same way)",
    "no competing jobserver clients during the link (the pool is private to the check), so acquired = N",
]
RULE = ("one case = one real link under a private jobserver: (transport pipe|fifo, N tokens, mode fork|nofork, scenario); all non-trivial; "
        "distinct by the case tuple")
ASSUMPTIONS = [
    "explicit --threads=N overrides the jobserver by design (theorem explicit_threads_take_no_tokens); 'threads <= acquired + 1' is "
    "claimed and checked for the default (no --threads)",
    "thread count = rayon workers: tasks of the link process other than its main thread (which blocks while workers run); "
    "when the pool has one thread the main thread is the worker",
]
EXPLANATION = ("Known finding skip-linking-exit-leaks-tokens: WILD_SAVE_DIR + WILD_SAVE_SKIP_LINKING calls std::process::exit(0) inside "
               "Linker::run (save_dir.rs) while the ThreadPool local of the caller holds the tokens; destructors are skipped and all "
               "acquired tokens are lost (model: RunEnd.exitInside, theorem exit_inside_leaks).")

ASM_OK = r"""
    .globl _start
    .text
_start:
    mov $60, %eax
    xor %edi, %edi
    syscall
"""
ASM_UNDEF = r"""
    .globl _start
    .text
_start:
    call missing_function
    mov $60, %eax
    syscall
"""

PR_SET_CHILD_SUBREAPER = 36
STOP_POINT = "after-inputs-loaded"
KNOWN_SKIP = "skip-linking-exit-leaks-tokens"



def private_wild(ctx):
    """A private copy of the hooked binary: a concurrent check of another property may rebuild (unlink + recreate) the shared one."""
    import shutil
    dst = os.path.join(ctx.scratch, "wild-under-test")
    with runner.Lock("cargo-wild"):
        if not os.path.exists(runner.WILD):
            raise runner.BuildError("hooked wild binary is missing (a concurrent build of /repo failed?)")
        try:
            os.link(runner.WILD, dst)
        except OSError:
            shutil.copy2(runner.WILD, dst)
    return dst

def fionread(fd):
    buf = array.array("i", [0])
    fcntl.ioctl(fd, termios.FIONREAD, buf)
    return buf[0]


def proc_state(pid):
    try:
        s = open(f"/proc/{pid}/stat").read()
    except OSError:
        return None
    # pid (comm) state ppid ...
    rest = s[s.rindex(")") + 2:].split()
    return rest[0], int(rest[1])


def children_of(pid):
    try:
        return [int(x) for x in open(f"/proc/{pid}/task/{pid}/children").read().split()]
    except (OSError, ValueError):
        pass
    out = []
    for d in os.listdir("/proc"):
        if d.isdigit():
            st = proc_state(int(d))
            if st and st[1] == pid:
                out.append(int(d))
    return out


class Jobserver:
    """A jobserver as GNU make creates it: pipe (--jobserver-auth=R,W) or fifo (--jobserver-auth=fifo:PATH)."""

    def __init__(self, transport, n, dirpath):
        self.transport = transport
        self.tokens = bytes(range(ord("A"), ord("A") + n))   # distinct bytes: duplication or substitution shows
        if transport == "pipe":
            self.r, self.w = os.pipe()
            self.auth = f"{self.r},{self.w}"
            self.pass_fds = (self.r, self.w)
        else:
            self.path = os.path.join(dirpath, f"js.{n}.fifo")
            if os.path.exists(self.path):
                os.unlink(self.path)
            os.mkfifo(self.path)
            self.r = os.open(self.path, os.O_RDWR | os.O_NONBLOCK)
            self.w = self.r
            self.auth = f"fifo:{self.path}"
            self.pass_fds = ()
        if n:
            os.write(self.w, self.tokens)

    def makeflags(self, n):
        return f" -j{n + 1} --jobserver-auth={self.auth}"

    def available(self):
        return fionread(self.r)

    def drain(self):
        fl = fcntl.fcntl(self.r, fcntl.F_GETFL)
        fcntl.fcntl(self.r, fcntl.F_SETFL, fl | os.O_NONBLOCK)
        got = b""
        while True:
            try:
                b = os.read(self.r, 4096)
            except BlockingIOError:
                break
            if not b:
                break
            got += b
        return got

    def close(self):
        os.close(self.r)
        if self.w != self.r:
            os.close(self.w)
        if self.transport == "fifo":
            os.unlink(self.path)


def reap_all(deadline_s=20.0):
    """Wait for every descendant (we are the subreaper: the detached worker is reparented to us). Returns the number reaped, or None on
    timeout."""
    n = 0
    t0 = time.time()
    while True:
        try:
            pid, _ = os.waitpid(-1, os.WNOHANG)
        except ChildProcessError:
            return n
        if pid == 0:
            if time.time() - t0 > deadline_s:
                return None
            time.sleep(0.002)
        else:
            n += 1


SCENARIOS = {
    # name: (object, extra env, extra args, fault after the stop point, model RunEnd, conserved expected by the property)
    "ok": ("ok.o", {}, [], None, "ok", True),
    "error-undefined-symbol": ("undef.o", {}, [], None, "error", True),
    "error-missing-input": ("ok.o", {}, ["does-not-exist.o"], None, "error", True),
    "error-hook-after-layout": ("ok.o", {}, [], "after-layout:error", "error", True),
    "error-hook-mid-write": ("ok.o", {}, [], "mid-write:error", "error", True),
    "panic-hook-after-layout": ("ok.o", {}, [], "after-layout:panic", "panic", True),
    "panic-hook-mid-write": ("ok.o", {}, [], "mid-write:panic", "panic", True),
    "panic-hook-after-inform": ("ok.o", {}, [], "after-inform-parent:panic", "panic", True),
    "skip-linking-exit": ("ok.o", {"WILD_SAVE_DIR": "@DIR@/save", "WILD_SAVE_SKIP_LINKING": "1"}, [], None, "exit-inside", True),
    # excluded by the property; run to validate the model's account of what is lost
    "abort-hook-after-layout": ("ok.o", {}, [], "after-layout:abort", "abort", False),
    "kill9-hook-after-layout": ("ok.o", {}, [], "after-layout:kill9", "killed", False),
}


def run_case(ctx, wild, d, base_env, transport, n, mode, scen, threads_arg=None, stop=True):
    obj, xenv, xargs, fault, run_end, _ = SCENARIOS[scen]
    js = Jobserver(transport, n, d)
    env = dict(base_env)
    env["MAKEFLAGS"] = js.makeflags(n)
    for k, v in xenv.items():
        env[k] = v.replace("@DIR@", d)
    faults = []
    # "missing input" fails before the stop point is reached
    stop = stop and scen != "error-missing-input"
    if stop:
        faults.append(f"{STOP_POINT}:stop")
    if fault:
        faults.append(fault)
    if faults:
        env["WILD_VERIF_FAULT"] = ",".join(faults)
    out = os.path.join(d, "out")
    args = [wild, obj, "-o", out] + xargs
    if mode == "nofork":
        args.append("--no-fork")
    if threads_arg:
        args.append(f"--threads={threads_arg}")
    p = subprocess.Popen(args, cwd=d, env=env, pass_fds=js.pass_fds, stdout=subprocess.DEVNULL, stderr=subprocess.PIPE)
    mid_pool = tasks = link_pid = None
    if stop:
        # find the process that runs the link and wait until it has stopped itself
        t0 = time.time()
        while time.time() - t0 < 20:
            cands = [p.pid] if mode == "nofork" else children_of(p.pid)
            st = [(c, proc_state(c)) for c in cands]
            stopped = [c for c, s in st if s and s[0] in ("T", "t")]
            if stopped:
                link_pid = stopped[0]
                break
            if p.poll() is not None:
                break
            time.sleep(0.001)
        if link_pid is not None:
            mid_pool = js.available()
            try:
                tasks = len(os.listdir(f"/proc/{link_pid}/task"))
            except OSError:
                tasks = None
            os.kill(link_pid, signal.SIGCONT)
    try:
        _, err = p.communicate(timeout=60)
    except subprocess.TimeoutExpired:
        p.kill()
        _, err = p.communicate()
    rc = p.returncode
    reaped = reap_all()
    left = js.drain()
    js.close()
    return {"rc": rc, "left": left, "tokens": js.tokens, "mid_pool": mid_pool, "tasks": tasks, "reaped": reaped,
            "stderr": err[-200:].decode("utf-8", "replace"), "stopped": link_pid is not None}


def run(ctx):
    libc = ctypes.CDLL(None, use_errno=True)
    if libc.prctl(PR_SET_CHILD_SUBREAPER, 1, 0, 0, 0) != 0:
        raise runner.BuildError("prctl(PR_SET_CHILD_SUBREAPER) failed")
    d = ctx.scratch
    wild = private_wild(ctx)
    import resource
    resource.setrlimit(resource.RLIMIT_CORE, (0, resource.getrlimit(resource.RLIMIT_CORE)[1]))
    for name, src in (("ok", ASM_OK), ("undef", ASM_UNDEF)):
        open(os.path.join(d, name + ".s"), "w").write(src)
        rc, out = runner.sh(["as", name + ".s", "-o", name + ".o"], cwd=d)
        if rc != 0:
            raise runner.BuildError("as failed: " + out)
    base_env = {k: v for k, v in os.environ.items() if not k.startswith("WILD_") and k not in ("MAKEFLAGS", "MFLAGS", "CARGO_MAKEFLAGS")}
    base_env["RUST_BACKTRACE"] = "0"

    cases = []
    ns = list(range(0, 9))
    for scen in SCENARIOS:
        for mode in ("fork", "nofork"):
            if scen == "panic-hook-after-inform" and mode == "nofork":
                continue
            if SCENARIOS[scen][5] is False or scen == "skip-linking-exit":
                nlist = [0, 3] if ctx.quick else [0, 1, 3, 8]
            elif scen in ("ok", "error-undefined-symbol", "panic-hook-after-layout"):
                nlist = ns
            else:
                nlist = [0, 1, 4] if ctx.quick else ns
            for n in nlist:
                cases.append(("pipe", n, mode, scen, None))
            for n in ([2] if ctx.quick else [0, 2, 8]):
                cases.append(("fifo", n, mode, scen, None))
    for mode in ("fork", "nofork"):
        for n in (0, 3):
            cases.append(("pipe", n, mode, "ok", 2))          # explicit --threads=2: no tokens taken
    if not ctx.quick:
        cases = cases * 3

    lines, impl, leaks = [], [], {}
    for (transport, n, mode, scen, threads_arg) in cases:
        r = run_case(ctx, wild, d, base_env, transport, n, mode, scen, threads_arg)
        run_end = SCENARIOS[scen][4]
        must_conserve = SCENARIOS[scen][5]
        left = r["left"]
        case = {"transport": transport, "tokens": n, "mode": mode, "scenario": scen, "threads_arg": threads_arg, "exit": r["rc"],
                "tokens_left": len(left), "bytes_left": left.decode("latin1"), "mid_link_pool": r["mid_pool"], "tasks": r["tasks"]}
        ctx.count("scenario", scen)
        ctx.count("mode", mode)
        ctx.count("tokens", str(n))
        ctx.count("transport", transport)
        if r["reaped"] is None:
            ctx.broken.append(f"descendants of wild did not exit within 20 s: {case}")
        # expected exit classes (sanity of the scenario itself)
        want_fail = run_end in ("error", "panic", "abort", "killed") and scen != "panic-hook-after-inform"
        if want_fail and r["rc"] == 0 or (run_end == "ok" and r["rc"] != 0):
            ctx.broken.append(f"scenario {scen} did not behave as intended (exit {r['rc']}): {r['stderr']!r}")
        # ---- the property, independent of the model
        if must_conserve:
            if sorted(left) != sorted(r["tokens"]):
                what = "leaked" if len(left) < n else ("duplicated" if len(left) > n else "substituted")
                key = KNOWN_SKIP if scen == "skip-linking-exit" else f"tokens-{what}:{scen}:{mode}"
                leaks.setdefault(key, []).append(case)
        # threads <= acquired + 1 (default thread count only)
        workers = acquired = None
        if r["stopped"] and r["tasks"] is not None and r["mid_pool"] is not None:
            acquired = n - r["mid_pool"]
            workers = r["tasks"] - 1 if r["tasks"] > 1 else 1
            ctx.count("mid-link", f"acquired={acquired},workers={workers}")
            if threads_arg is None and workers > acquired + 1:
                leaks.setdefault(f"too-many-threads:{mode}", []).append(case)
        # ---- model correspondence
        if r["stopped"] and workers is not None:
            lines.append(f"js-run {mode} {threads_arg or '-'} 1 - {run_end} {n}")
            impl.append(f"pool={len(left)} threads={workers} acquired={acquired}")
        else:
            lines.append(f"js-pool {mode} {threads_arg or '-'} 1 - {run_end} {n}")
            impl.append(f"pool={len(left)}")
        ctx.sample({"case": case}, cap=6)
    for key, items in leaks.items():
        ctx.cov["impl_oracle_failures"] += len(items)
        f = items[0]
        ctx.violation(key, f"jobserver tokens not conserved / too many threads: {key}; e.g. {f['tokens']} tokens before, "
                      f"{f['tokens_left']} after ({f['scenario']}, {f['mode']}, {f['transport']}); {len(items)} case(s)",
                      {"cases": items[:20], "how": "python: r,w=os.pipe(); os.write(w,b'A'*N); MAKEFLAGS=' -j<N+1> --jobserver-auth=r,w' "
                       "wild <obj> -o out [--no-fork] with pass_fds=(r,w); wait for all descendants; count bytes left in r",
                       "scenario_table": {k: {"env": v[1], "args": v[2], "fault": v[3]} for k, v in SCENARIOS.items()}})
    ctx.differential("js-run", lines, impl_out=impl)
