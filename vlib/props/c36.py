"""C36 - Stack and GNU property notes are merged as in GNU ld."""
import os
import shutil
import struct

from .. import elfread
from .. import linkutil as lu

NEEDS_WILD = True
LEAN_MODULES = ["WildModel.Props.C36"]
THEOREMS = [
    "Wild.Notes.class_eq_gnu",
    "Wild.Notes.props_and_or_spec_partial",
    "Wild.Notes.props_error_iff",
    "Wild.Notes.props_full_witness",
    "Wild.Notes.props_order_free",
    "Wild.Notes.gnuProps_order_free",
    "Wild.Notes.stack_eq_gnu_partial",
    "Wild.Notes.stack_flags_eq_gnu_partial",
    "Wild.Notes.stack_full_witness",
    "Wild.Notes.stack_missing_note_witness",
    "Wild.Notes.stack_exec_note_witness",
    "Wild.Notes.stack_exec_note_noexecstack_witness",
    "Wild.Notes.stack_no_notes_presence_witness",
]
LEVEL = "proof"
TECHNIQUE = ("Lean 4 theorems over an executable model of process_gnu_note_section / merge_gnu_property_notes / get_property_class / "
             "validate_stack_section + whole-link differential correspondence (wild vs model) with GNU ld 2.40 as oracle; the GNU ld spec "
             "text used by the theorems is itself validated against /usr/bin/ld on every run")
TRUSTED = [
    "hand-written model lean/WildModel/Model/Notes.lean of elf.rs process_gnu_note_section / merge_gnu_property_notes / validate_stack_section, "
    "elf_x86_64.rs get_property_class and the PT_GNU_STACK flag computation in elf_writer.rs, tied by whole-link correspondence `notes-link`: "
    "hand-written .note.GNU-stack / .note.gnu.property inputs are linked by the hooked wild from /repo's working tree and the output's "
    "PT_GNU_STACK flags and property note are read back with vlib/elfread.py",
    "the GNU ld rule set lean/WildModel/Model/NotesSpec.lean (gnuClass, gnuValue, gnuProps, gnuStack) is the reading of bfd/elf-properties.c, "
    "bfd/elfxx-x86.c and bfd/elflink.c; validated on every run against /usr/bin/ld 2.40 on the same inputs (correspondence `gnu-spec-vs-ld`)",
    "the HashMap in merge_gnu_property_notes is modelled as an association list with unique keys; iteration order is irrelevant because the result is sorted by key",
    "no PT_GNU_STACK on x86-64 Linux means a non-executable stack (arch/x86/include/asm/elf.h: 'missing PT_GNU_STACK ... x86_64: exec-none')",
    "GNU as, GNU ld 2.40 (oracle), vlib/elfread.py",
]
RULE = ("fixed targeted cases (class-range boundaries, duplicates inside a file, two notes in a section, inputs without property section, -z x86-64-vN, "
        "all stack-note x flag combinations for 1-2 inputs) + stratified random links: 1-4 inputs x {no stack note, noexec, exec} x property notes drawn "
        "from FEATURE_1_AND (IBT/SHSTK), ISA_1_NEEDED, ISA_1_USED, FEATURE_2_USED and generic/boundary types x -z execstack/noexecstack/neither x "
        "{exe, -static, -shared, -pie}; non-trivial = at least two inputs or a property note or a stack flag; distinct by request line")
ASSUMPTIONS = [
    "x86-64 only (get_property_class of the other architectures is not modelled)",
    "all relocatable inputs are loaded objects given on the command line (archive members that are not loaded and shared objects are ignored by both linkers; probed, not generated)",
    "one .note.gnu.property section per input",
    "UINT32 (4-byte) properties; GNU_PROPERTY_STACK_SIZE / NO_COPY_ON_PROTECTED are only probed (known finding)",
    "GNU ld 2.40 aborts with an internal error on -z x86-64-baseline, so that flag is compared with the model only",
    "the GNU-ld spec model covers the x86 property ranges; the processor-independent UINT32 AND/OR ranges (0xb0000000-0xb000ffff) are outside it",
]

FEATURE_1_AND = 0xc0000002
ISA_1_NEEDED = 0xc0008002
ISA_1_USED = 0xc0010002
FEATURE_2_USED = 0xc0010001
MAIN_TYPES = [FEATURE_1_AND, ISA_1_NEEDED, ISA_1_USED, FEATURE_2_USED]
EDGE_TYPES = [0xb0000000, 0xb0007fff, 0xb0008000, 0xb000ffff, 0xc0000003, 0xc0007fff, 0xc0008000, 0xc000ffff, 0xc0010000, 0xc0017fff]
ISA_FLAGS = {"-": None, "0x1": "x86-64-baseline", "0x2": "x86-64-v2", "0x4": "x86-64-v3", "0x8": "x86-64-v4"}
KIND_FLAGS = {"exe": [], "static": ["-static"], "shared": ["-shared"], "pie": ["-pie"]}
Z_FLAGS = {"-": [], "x": ["-z", "execstack"], "n": ["-z", "noexecstack"]}

K_MISSING = "stack:missing-note-input"
K_EXEC = "stack:exec-note-without-flag"
K_EXEC_NOEXEC = "stack:exec-note-with-noexecstack"
K_UNCLASSIFIED = "props:unclassified-type-error"
K_NON_U32 = "props:non-uint32-dropped"
K_GENERIC = "props:generic-uint32-range"


def generic_range_only(a, b):
    """do two canonical property lists differ only in entries of GNU_PROPERTY_UINT32_AND_LO..OR_HI (0xb0000000-0xb000ffff)?"""
    sa = {x for x in a.split(",") if x and x != "-"}
    sb = {x for x in b.split(",") if x and x != "-"}
    diff = sa ^ sb
    return bool(diff) and all(0xB0000000 <= int(x.split(":")[0], 16) <= 0xB000FFFF for x in diff)


def py_class(t):
    """Third, independent copy of the class ranges (used only to decide which region a generated case is in)."""
    if 0xc0000002 <= t <= 0xc0007fff or 0xb0000000 <= t <= 0xb0007fff:
        return "and"
    if 0xc0008000 <= t <= 0xc000ffff or 0xb0008000 <= t <= 0xb000ffff:
        return "or"
    if 0xc0010000 <= t <= 0xc0017fff:
        return "orand"
    return None


# ---------------------------------------------------------------- inputs
class Case:
    """files: list of (stack, notes); stack in 'm','n','x'; notes None (no section) or list of notes, each a list of
    (type, datasz, value)."""

    def __init__(self, files, z="-", isa="-", kind="exe", tag="random", zseq=None):
        self.files = files
        self.z = z              # the effective flag: the LAST of -z execstack / -z noexecstack on the command line
        self.zseq = zseq or z   # the flags as given, in order
        assert self.zseq[-1] == z
        self.isa = isa
        self.kind = kind
        self.tag = tag

    def raw(self, k):
        notes = self.files[k][1]
        return [p for note in (notes or []) for p in note]

    def request(self, op="notes-link"):
        toks = [op, self.z, self.isa]
        for k, (st, notes) in enumerate(self.files):
            toks += ["F", st]
            toks += [f"0x{t:x}:{sz}:0x{v & 0xffffffff:x}" for (t, sz, v) in self.raw(k)]
        return " ".join(toks)

    def all_props(self):
        return [p for k in range(len(self.files)) for p in self.raw(k)]

    def in_uint32_region(self):
        return all(sz == 4 and py_class(t) is not None for (t, sz, v) in self.all_props())


def asm_text(first, stack, notes):
    s = ""
    if first:
        s += ".globl _start\n.text\n_start:\n mov $60,%eax\n xor %edi,%edi\n syscall\n"
    else:
        s += ".text\n nop\n"
    if notes is not None:
        s += '.section .note.gnu.property,"a"\n.align 8\n'
        for note in notes:
            body = ""
            descsz = 0
            for (t, sz, v) in note:
                pad = (-sz) % 8
                body += f" .long 0x{t:x}\n .long {sz}\n"
                if sz == 4:
                    body += f" .long 0x{v & 0xffffffff:x}\n"
                elif sz:
                    body += "".join(f" .byte {b}\n" for b in (v & ((1 << (8 * sz)) - 1)).to_bytes(sz, "little"))
                if pad:
                    body += f" .zero {pad}\n"
                descsz += 8 + sz + pad
            s += f' .long 4\n .long {descsz}\n .long 5\n .asciz "GNU"\n' + body
    if stack == "n":
        s += '.section .note.GNU-stack,"",@progbits\n'
    elif stack == "x":
        s += '.section .note.GNU-stack,"x",@progbits\n'
    return s


class Objects:
    """Content-addressed cache of assembled inputs."""

    def __init__(self, d):
        self.d = d
        self.cache = {}
        os.makedirs(d, exist_ok=True)

    def get(self, first, stack, notes):
        """Registers the input (deterministic name by first use); assembled later by build_all."""
        key = repr((first, stack, notes))
        if key not in self.cache:
            name = f"o{len(self.cache)}"
            text = asm_text(first, stack, notes)
            lu.write(os.path.join(self.d, name + ".s"), text)
            self.cache[key] = (os.path.join(self.d, name + ".o"), text)
        return self.cache[key]

    def build_all(self, pool):
        def one(item):
            o, _text = item
            lu.assemble(o[:-2] + ".s", o)
        list(pool.map(one, list(self.cache.values())))


# ---------------------------------------------------------------- observation
def observe(path):
    e = elfread.Elf(path)
    stack = [s.flags for s in e.segs("GNU_STACK")]
    props = []
    for n in e.notes():
        if n["name"] == "GNU" and n["type"] == 5:
            d = n["desc"]
            p = 0
            while p + 8 <= len(d):
                t, sz = struct.unpack_from("<II", d, p)
                p += 8
                props.append((t, d[p:p + sz]))
                p = (p + sz + 7) & ~7
    return stack, props


def canon(stack, props):
    st = "none" if not stack else "+".join(f"0x{f:x}" for f in stack)
    ps = []
    for t, b in props:
        if len(b) == 4:
            ps.append(f"0x{t:x}:0x{struct.unpack('<I', b)[0]:x}")
        else:
            ps.append(f"0x{t:x}:b{b.hex()}")
    return f"stack={st} props={','.join(ps) if ps else '-'}"


def run_link(linker, case, objs, out):
    args = ["-o", out] + KIND_FLAGS[case.kind] + [a for ch in case.zseq for a in Z_FLAGS[ch]]
    if ISA_FLAGS[case.isa]:
        args += ["-z", ISA_FLAGS[case.isa]]
    args += objs
    if os.path.exists(out):
        os.unlink(out)
    rc, o, e = lu.link(linker, args)
    cmd = [{"wild": lu.wild_path(), "ld": lu.LD}[linker]] + args
    if rc != 0:
        el = e.lower()
        if "requires executable stack" in el and linker == "wild":
            return "err:stack", cmd, e
        if "unclassified property type" in el:
            t = el.split("unclassified property type")[1].split()[0].strip()
            try:
                return f"err:unclassified:0x{int(t):x}", cmd, e
            except ValueError:
                pass
        return "err:other:" + (e.strip().split("\n")[0][:140] if e.strip() else f"rc={rc}"), cmd, e
    try:
        st, props = observe(out)
    except Exception as ex:  # unreadable output is an observation, not a crash of the check
        return f"err:unreadable-output:{type(ex).__name__}", cmd, e
    return canon(st, props), cmd, e


def parse_canon(c):
    """-> (stack_flags or None for 'none' / 'err', props string)"""
    if c.startswith("err"):
        return "err", None
    st, pr = c.split(" ")
    st = st[len("stack="):]
    return (None if st == "none" else st), pr[len("props="):]


def xbit(st):
    if st is None:
        return 0
    try:
        return int(st, 16) & 1
    except ValueError:
        return -1


# ---------------------------------------------------------------- generation
def fixed_cases(thorough=False):
    A, N, U, F = FEATURE_1_AND, ISA_1_NEEDED, ISA_1_USED, FEATURE_2_USED
    P = lambda *ps: [[(t, 4, v) for (t, v) in ps]]
    cs = []
    # stack notes x flags, 1 and 2 inputs
    for z in "-xn":
        for sts in ["m", "n", "x", "mm", "nn", "nm", "mn", "nx", "xn", "mx", "xx"]:
            cs.append(Case([(s, None) for s in sts], z=z, tag="stack-grid"))
    # both flags given: the last one decides (GNU ld)
    for zseq in ("xn", "nx", "xnx", "nxn"):
        for sts in ["n", "nn", "m", "nm"]:
            cs.append(Case([(s, None) for s in sts], z=zseq[-1], zseq=zseq, tag="stack-flag-sequence"))
    for kind in ("static", "shared", "pie"):
        cs.append(Case([("n", None), ("n", None)], kind=kind, tag="stack-kind"))
        cs.append(Case([("n", None), ("m", None)], kind=kind, tag="stack-kind"))
        cs.append(Case([("n", None), ("n", None)], z="x", kind=kind, tag="stack-kind"))
    # property merging
    cs += [
        Case([("n", P((A, 1))), ("n", P((A, 1)))], tag="and"),
        Case([("n", P((A, 3))), ("n", P((A, 1)))], tag="and"),
        Case([("n", P((A, 2))), ("n", P((A, 1)))], tag="and-to-zero"),
        Case([("n", P((A, 3))), ("n", None)], tag="and-missing-section"),
        Case([("n", P((A, 3))), ("n", [])], tag="and-empty-section"),
        Case([("n", P((A, 3))), ("n", P((N, 1)))], tag="and-missing-type"),
        Case([("n", P((A, 3))), ("n", P((A, 3))), ("n", P((A, 3))), ("n", P((A, 2)))], kind="shared", tag="and-4"),
        Case([("n", P((N, 1))), ("n", P((N, 2)))], tag="or"),
        Case([("n", P((N, 1))), ("n", None)], tag="or-missing"),
        Case([("n", P((N, 0))), ("n", P((N, 0)))], tag="or-zero"),
        Case([("n", P((U, 1))), ("n", P((U, 2)))], tag="orand"),
        Case([("n", P((U, 1))), ("n", None)], tag="orand-missing"),
        Case([("n", P((U, 0))), ("n", P((U, 0)))], tag="orand-zero-kept"),
        Case([("n", P((U, 0))), ("n", P((U, 0))), ("n", P((U, 5)))], kind="pie", tag="orand-3"),
        Case([("n", P((F, 1))), ("n", P((F, 0x20)))], tag="orand"),
        Case([("n", P((F, 1))), ("n", P((A, 3)))], tag="orand-missing-type"),
        Case([("n", P((A, 3), (N, 1), (F, 1), (U, 1))), ("n", P((A, 2), (N, 2), (F, 2), (U, 2)))], tag="multi"),
        Case([("n", P((U, 1), (A, 3))), ("n", P((U, 1), (A, 3)))], tag="unsorted-input"),
        # duplicates inside one input: GNU ld ORs them before merging across inputs
        Case([("n", P((A, 1), (A, 2))), ("n", P((A, 3)))], tag="dup-in-file"),
        Case([("n", P((A, 1), (A, 2)))], tag="dup-in-file"),
        Case([("n", [[(A, 4, 1)], [(A, 4, 2)]]), ("n", P((A, 3)))], tag="two-notes"),
        Case([("n", [[(A, 4, 1)], [(A, 4, 3)]]), ("n", P((A, 3)))], tag="two-notes"),
        Case([("n", P((N, 1), (N, 2))), ("n", P((N, 4)))], tag="dup-in-file-or"),
        Case([("n", P((U, 1), (U, 2))), ("n", P((U, 4)))], tag="dup-in-file-orand"),
        # -z x86-64-vN
        Case([("n", None), ("n", None)], isa="0x2", tag="isa"),
        Case([("n", P((N, 1))), ("n", None)], isa="0x4", tag="isa"),
        Case([("n", P((A, 3))), ("n", P((A, 3)))], isa="0x4", tag="isa"),
        Case([("n", None)], isa="0x8", kind="shared", tag="isa"),
        Case([("n", None)], isa="0x1", tag="isa-baseline"),
        Case([("n", P((N, 0)))], isa="0x2", tag="isa"),
    ]
    # class range boundaries
    for k, t in enumerate(EDGE_TYPES):
        cs.append(Case([("n", P((t, 3))), ("n", P((t, 6)))], tag="range-edge"))
        if thorough or k % 2 == 0:
            cs.append(Case([("n", P((t, 3))), ("n", None)], tag="range-edge-missing"))
    return cs


def special_cases():
    """Outside the UINT32 / classified region: probes for the recorded deviations."""
    A = FEATURE_1_AND
    return [
        Case([("n", [[(3, 4, 1)]]), ("n", [[(3, 4, 2)]])], tag="unclassified"),
        Case([("n", [[(0xc0000000, 4, 1)]]), ("n", [[(0xc0000000, 4, 2)]])], tag="unclassified"),
        Case([("n", [[(0xc0000001, 4, 1)]]), ("n", [[(A, 4, 3)]])], tag="unclassified"),
        Case([("n", [[(0xc0018000, 4, 1)]]), ("n", None)], tag="unclassified"),
        Case([("n", [[(0xb0010000, 4, 1)]]), ("n", None)], tag="unclassified"),
        Case([("n", [[(1, 8, 0x100000)]]), ("n", [[(A, 4, 3)]])], tag="non-uint32"),
        Case([("n", [[(2, 0, 0)]]), ("n", [[(2, 0, 0)]])], tag="non-uint32"),
        Case([("n", [[(1, 8, 0x100000), (A, 4, 3)]]), ("n", [[(A, 4, 1)]])], tag="non-uint32"),
    ]


def gen_file_notes(r, pool):
    k = r.below(12)
    if k < 2:
        return None
    if k == 2:
        return []
    props = []
    for t in pool:
        if r.chance(3, 4):
            if py_class(t) == "and":
                v = r.choice([1, 2, 3, 3, 3, 0, 7, 0xffffffff, 0x80000001])
            else:
                v = r.choice([0, 1, 2, 4, 8, 3, 0x10, 0x80000000, 0x21])
            props.append((t, 4, v))
    if props and r.chance(1, 8):
        t, _, v = r.choice(props)
        props.append((t, 4, r.choice([1, 2, 4, 0, 0xf0])))
    if len(props) >= 2 and r.chance(1, 8):
        c = r.range(1, len(props) - 1)
        return [props[:c], props[c:]]
    if not props:
        return None
    return [props]


def gen_case(r, n, z, kind):
    pool = r.shuffle(MAIN_TYPES)[:r.range(1, 3)]
    if r.chance(1, 4):
        pool.append(r.choice(EDGE_TYPES))
    # stack notes: mostly noexec so that the link proceeds to the property merge
    stacks = []
    mode = r.below(4)
    for _ in range(n):
        if mode == 0:
            stacks.append(r.choice("mnx"))
        elif mode == 1:
            stacks.append(r.choice("nnnm"))
        else:
            stacks.append("n")
    isa = r.choice(["0x1", "0x2", "0x4", "0x8"]) if r.chance(1, 6) else "-"
    return Case([(st, gen_file_notes(r, pool)) for st in stacks], z=z, isa=isa, kind=kind)


def stack_grid_cases(r, thorough):
    """All stack-note tuples x flags (thorough), property notes random."""
    cs = []
    if not thorough:
        return cs
    import itertools
    for n in range(1, 5):
        for sts in itertools.product("mnx", repeat=n):
            for z in "-xn":
                pool = r.shuffle(MAIN_TYPES)[:2]
                cs.append(Case([(s, gen_file_notes(r, pool)) for s in sts], z=z, kind=r.choice(list(KIND_FLAGS)), tag="stack-grid-full"))
    return cs


# ---------------------------------------------------------------- check
def run(ctx):
    r = ctx.rng
    objs = Objects(os.path.join(ctx.scratch, "objs"))
    outdir = os.path.join(ctx.scratch, "out")
    os.makedirs(outdir, exist_ok=True)
    cases = fixed_cases(not ctx.quick) + special_cases()
    n_random = 48 if ctx.quick else 3000
    zs, kinds = "-xn", list(KIND_FLAGS)
    for i in range(n_random):
        cases.append(gen_case(r, 1 + i % 4, zs[(i // 4) % 3], kinds[(i // 12) % 4]))
    cases += stack_grid_cases(r, not ctx.quick)

    # Process spawns dominate the run time; links are independent, results are collected in case order (deterministic).
    from concurrent.futures import ThreadPoolExecutor
    all_built = [[objs.get(k == 0, st, notes) for k, (st, notes) in enumerate(c.files)] for c in cases]

    def link_both(i):
        c = cases[i]
        paths = [b[0] for b in all_built[i]]
        rw = run_link("wild", c, paths, os.path.join(outdir, f"w{i}.out"))
        if c.isa == "0x1":
            rl = ("skipped:ld-2.40-aborts-on-x86-64-baseline", [], "")
        else:
            rl = run_link("ld", c, paths, os.path.join(outdir, f"l{i}.out"))
        for f in (f"w{i}.out", f"l{i}.out"):
            try:
                os.unlink(os.path.join(outdir, f))
            except OSError:
                pass
        return rw, rl

    with ThreadPoolExecutor(max_workers=4) as pool:
        objs.build_all(pool)
        linked = list(pool.map(link_both, range(len(cases))))

    reqs, wild_c, ld_c, info = [], [], [], []
    for i, c in enumerate(cases):
        built = all_built[i]
        (cw, cmdw, errw), (cl, cmdl, errl) = linked[i]
        reqs.append(c.request())
        wild_c.append(cw)
        ld_c.append(cl)
        info.append((c, built, cmdw, cmdl, errw, errl))
        ctx.count("inputs", str(len(c.files)))
        ctx.count("z", c.z)
        ctx.count("kind", c.kind)
        ctx.count("isa", c.isa)
        ctx.count("tag", c.tag)
        for st, notes in c.files:
            ctx.count("stack-note", st)
            ctx.count("property-section", "none" if notes is None else f"{len(notes)}-notes")
        for (t, sz, v) in c.all_props():
            ctx.count("pr_type", f"0x{t:x}" if t in MAIN_TYPES else ("edge/other"))
        ctx.count("wild-outcome", cw.split(":")[0] + ":" + cw.split(":")[1] if cw.startswith("err") else "linked")

    def nontrivial(l, a, b):
        return l.count(" F ") >= 2 or ":4:" in l or not l.startswith("notes-link - -")

    # (1) correspondence: wild == model of wild
    dis, _, model = ctx.differential("notes-link", reqs, impl_out=wild_c, nontrivial=nontrivial)

    # (2) validation of the GNU ld spec text against the real GNU ld, on the region the spec covers
    # GNU ld 2.40 itself fails ("failed to create GNU property section") when -z x86-64-vN has to create the note and no input
    # carries one: the oracle has no answer there
    ld_broken = [i for i in range(len(info)) if "failed to create GNU property section" in ld_c[i]]
    ctx.count("oracle", "gnu-ld-fails-to-create-property-section", len(ld_broken))
    # the spec text models the x86 ranges; GNU ld treats the processor-independent ranges 0xb0000000-0xb000ffff differently
    # (a zero value is kept): outside the spec's domain, and wild's difference there is the recorded finding props:generic-uint32-range
    generic = lambda c: any(0xB0000000 <= t <= 0xB000FFFF for (t, sz, v) in c.all_props())
    idx = [i for i, (c, *_r) in enumerate(info) if c.in_uint32_region() and not generic(c) and not ld_c[i].startswith("skipped") and i not in set(ld_broken)]
    greqs = [info[i][0].request("notes-gnu") for i in idx]
    ctx.differential("gnu-spec-vs-ld", greqs, impl_out=[ld_c[i] for i in idx], nontrivial=lambda l, a, b: True)

    # (3) oracle: wild vs GNU ld
    def replay(i, extra=None):
        c, built, cmdw, cmdl, errw, errl = info[i]
        keep = os.path.join(ctx.replay_dir(), f"c36-{i}")
        os.makedirs(keep, exist_ok=True)
        srcs = {}
        for (o, text) in built:
            base = os.path.basename(o)
            shutil.copy(o, os.path.join(keep, base))
            shutil.copy(o[:-2] + ".s", os.path.join(keep, base[:-2] + ".s"))
            srcs[base[:-2] + ".s"] = text
        d = {"request": reqs[i], "tag": c.tag, "dir": keep, "assembly": srcs, "assemble": "as --64 -o oN.o oN.s",
             "wild_cmd": " ".join(cmdw), "ld_cmd": " ".join(cmdl), "wild": wild_c[i], "ld": ld_c[i], "model": model[i],
             "wild_stderr": errw[-400:], "ld_stderr": errl[-400:]}
        if extra:
            d.update(extra)
        return d

    emitted = set()
    real_violation = ctx.violation

    def violation_once(key, what, make_replay):
        # every key is reported once (the runner de-duplicates by key anyway); avoids copying replay files for repeats
        if key in emitted:
            return
        emitted.add(key)
        real_violation(key, what, make_replay())

    for i, (c, *_r) in enumerate(info):
        cw, cl = wild_c[i], ld_c[i]
        if cl.startswith("skipped"):
            ctx.count("oracle", "skipped-ld-abort")
            continue
        if cl.startswith("err"):
            ctx.count("oracle", "ld-rejects-input")
            continue
        stacks = [st for st, _ in c.files]
        any_x, any_m, all_m = "x" in stacks, "m" in stacks, all(s == "m" for s in stacks)
        lst, lpr = parse_canon(cl)
        wst, wpr = parse_canon(cw)
        ctx.count("oracle", "compared")
        # ---- stack
        if cw == "err:stack":
            ctx.cov["impl_oracle_failures"] += 1
            if any_x and c.z == "-":
                violation_once(K_EXEC, "wild refuses an input whose .note.GNU-stack is executable unless -z execstack is given; GNU ld links with an RWE PT_GNU_STACK", lambda: replay(i))
            elif any_x and c.z == "n":
                violation_once(K_EXEC_NOEXEC, "wild refuses an executable .note.GNU-stack even with an explicit -z noexecstack; GNU ld links with an RW PT_GNU_STACK", lambda: replay(i))
            else:
                violation_once("stack:error:" + reqs[i], f"wild fails with a stack error where GNU ld links: {cl}", lambda: replay(i))
            continue
        if cw.startswith("err:unclassified"):
            ctx.cov["impl_oracle_failures"] += 1
            t = int(cw.split(":")[2], 16)
            if py_class(t) is None and any(p[0] == t and p[1] == 4 for p in c.all_props()):
                violation_once(K_UNCLASSIFIED, f"wild fails the link on a 4-byte property of a type outside its class ranges (0x{t:x}); GNU ld links", lambda: replay(i))
            else:
                violation_once("props:error:" + reqs[i], f"wild reports an unclassified property type 0x{t:x} that is classified / not in the input", lambda: replay(i))
            continue
        if cw.startswith("err"):
            ctx.cov["impl_oracle_failures"] += 1
            violation_once("link-error:" + reqs[i], f"wild fails ({cw}) where GNU ld links: {cl}", lambda: replay(i))
            continue
        if xbit(wst) != xbit(lst):
            ctx.cov["impl_oracle_failures"] += 1
            if c.z == "-" and any_m and not all_m and not any_x and xbit(wst) == 0 and xbit(lst) == 1:
                violation_once(K_MISSING, "an input without .note.GNU-stack: GNU ld 2.40 emits an RWE PT_GNU_STACK (x86-64 default), wild emits RW", lambda: replay(i))
            else:
                violation_once("stack:xbit:" + reqs[i], f"PT_GNU_STACK executable bit differs: wild {wst}, GNU ld {lst}", lambda: replay(i))
        elif wst != lst:
            if lst is None and all_m and c.z == "-":
                ctx.count("oracle", "stack-header-presence-differs(no input has a stack note; both non-executable)")
            else:
                ctx.cov["impl_oracle_failures"] += 1
                violation_once("stack:flags:" + reqs[i], f"PT_GNU_STACK differs: wild {wst}, GNU ld {lst}", lambda: replay(i))
        # ---- properties
        if c.in_uint32_region():
            if wpr != lpr:
                ctx.cov["impl_oracle_failures"] += 1
                if generic_range_only(wpr, lpr):
                    violation_once(K_GENERIC, f"properties of the processor-independent UINT32 AND/OR ranges differ from GNU ld: wild {wpr}, GNU ld {lpr}", lambda: replay(i))
                else:
                    violation_once("props:" + reqs[i], f"output .note.gnu.property differs: wild {wpr}, GNU ld {lpr}", lambda: replay(i))
        else:
            # compare the UINT32 entries; report dropped non-UINT32 properties under their own key
            l4 = ",".join(x for x in lpr.split(",") if ":b" not in x and x != "-" and py_class(int(x.split(":")[0], 16))) or "-"
            w4 = ",".join(x for x in wpr.split(",") if ":b" not in x and x != "-" and py_class(int(x.split(":")[0], 16))) or "-"
            lother = [x for x in lpr.split(",") if ":b" in x]
            wother = [x for x in wpr.split(",") if ":b" in x]
            if lother != wother:
                ctx.cov["impl_oracle_failures"] += 1
                if not wother and all(int(x.split(":")[0], 16) in (1, 2) for x in lother):
                    violation_once(K_NON_U32, "GNU_PROPERTY_STACK_SIZE / GNU_PROPERTY_NO_COPY_ON_PROTECTED are dropped from the output note; GNU ld keeps them", lambda: replay(i))
                else:
                    violation_once("props:non-uint32:" + reqs[i], f"non-UINT32 properties differ: wild {wother}, GNU ld {lother}", lambda: replay(i))
            if w4 != l4:
                ctx.cov["impl_oracle_failures"] += 1
                if generic_range_only(w4, l4):
                    violation_once(K_GENERIC, f"properties of the processor-independent UINT32 AND/OR ranges differ from GNU ld: wild {w4}, GNU ld {l4}", lambda: replay(i))
                else:
                    violation_once("props:" + reqs[i], f"output .note.gnu.property differs: wild {w4}, GNU ld {l4}", lambda: replay(i))
    ctx.cov["oracle_links_checked"] = sum(1 for x in ld_c if not x.startswith("skipped"))
