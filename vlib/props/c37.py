"""C37 - DT_NEEDED lists exactly the required libraries."""
import os
import shutil

from .. import linkmodel as lm
from ..elfread import Elf
from . import c02

NEEDS_WILD = True
LEAN_MODULES = ["WildModel.Props.C37", "WildModel.Props.C37Mentions"]
THEOREMS = [
    "Wild.Link.needed_sorted_nodup",
    "Wild.Link.non_as_needed_listed",
    "Wild.Link.as_needed_listed_iff",
    "Wild.Link.satisfies_implies_listed",
    "Wild.Link.as_needed_overridden_witness",
    "Wild.Link.C37_full_false",
    "Wild.Link.candidates_head",
    "Wild.Link.resolve_first_dynamic",
    "Wild.Link.as_needed_spec_partial",
    "Wild.Mentions.loadInputs_paths",
    "Wild.Mentions.loadInputs_flag",
    "Wild.Mentions.old_first_mention_witness",
]
LEVEL = "proof"
TECHNIQUE = "Lean 4 theorems over the M-Link loaded-set model (exact characterisation of DT_NEEDED) + whole-link differential correspondence; GNU ld / lld as oracle"
TRUSTED = [
    "model lean/WildModel/Model/Needed.lean + Link.lean (DT_NEEDED = loaded shared objects in command-line order), tied by whole-link correspondence on generated link lines "
    "mixing --as-needed/--no-as-needed regions, weak/non-weak references from objects and archive members",
    "GNU ld 2.40 and ld.lld 14 as oracles where they agree",
    "the de-duplication loop of FileLoader::load_inputs for files named more than once is modelled in Props/C37Mentions.lean (loadInputs) and tied by the second-mention cases of the whole-link correspondence (the twice-named library is given to the M-Link model as one file that is as-needed iff all mentions are: loadInputs_flag)",
]
RULE = "random link inputs with 1-4 shared objects (as-needed or not), objects and archive members referencing them weakly / non-weakly; in a third of the inputs one shared object is named a second time under a random --as-needed state; non-trivial = at least one as-needed library; distinct by request line"
ASSUMPTIONS = ["a shared object appears at most twice on the command line; sonames are distinct", "a twice-named library is modelled as one file at its first position that is as-needed only if both mentions are (GNU ld / lld behaviour)"]


def gen(r):
    files = [{"kind": "obj", "entries": []}]
    nlib = r.range(1, 4)
    nobj = r.range(0, 3)
    kinds = ["so"] * nlib + [r.choice(["obj", "ar"]) for _ in range(nobj)]
    kinds = r.shuffle(kinds)
    g = 0
    for k in kinds:
        f = {"kind": k, "entries": []}
        if k == "so":
            f["as_needed"] = r.chance(2, 3)
        if k == "ar":
            g += 1
            # --whole-archive regions stay open over the shared objects that follow (the flag only concerns archives)
            f.update({"whole": r.chance(1, 3), "group": g, "thin": g % 2 == 0})
        files.append(f)
    nnames = r.range(1, 5)
    for n in range(nnames):
        definers = [k for k in range(1, len(files)) if r.chance(1, 2)]
        for k in definers:
            f = files[k]
            s = r.choice(["s", "s", "w"])
            f["entries"].append(("D", n, s, 0, False))
        for k, f in enumerate(files):
            if k in definers or f["kind"] == "so":
                continue
            if r.chance(1, 2):
                f["entries"].append(("U", n, r.chance(1, 3)))
    for k, f in enumerate(files):
        if f["kind"] == "ar":
            n = 100 + k
            f["entries"].append(("D", n, "s", 0, False))
            if r.chance(2, 3):
                files[0]["entries"].append(("U", n, False))
    return files


def needed_of(files, out):
    e = Elf(out)
    names = e.needed()
    idx = []
    for nm in names:
        if nm.startswith("libs") and nm.endswith(".so"):
            idx.append(int(nm[4:-3]))
        else:
            idx.append(nm)
    return idx


def run(ctx):
    r = ctx.rng
    n = 50 if ctx.quick else 350
    reqs, impl, inputs = [], [], []
    for i in range(n):
        files = gen(r)
        d = os.path.join(ctx.scratch, f"c{i}")
        try:
            line = lm.build_inputs(d, files)
        except RuntimeError:
            ctx.count("gen", "build-failed")
            continue
        # a shared object may be named a second time under the other flag: it is loaded once, at its first position, and is
        # "linked without --as-needed" as soon as one of its mentions is (GNU ld and lld agree)
        sos = [k for k, f in enumerate(files) if f["kind"] == "so"]
        if sos and r.chance(1, 3):
            k = r.choice(sos)
            a = r.chance(1, 2)
            line = line + ["--as-needed" if a else "--no-as-needed", os.path.join(d, f"libs{k}.so")]
            ctx.count("second-mention", f"first={'as-needed' if files[k].get('as_needed') else 'no-as-needed'},second={'as-needed' if a else 'no-as-needed'}")
            # the model of the de-duplication loop (Model/Mentions.lean loadInputs) says which request each library ends up with
            ments = [(j, bool(f.get("as_needed"))) for j, f in enumerate(files) if f["kind"] == "so"] + [(k, a)]
            ans = ctx.model_eval(["mentions " + " ".join(f"{j}:{1 if b else 0}" for j, b in ments)])[0]
            merged = [tuple(int(v) for v in t.split(":")) for t in ans[2:].split(",")] if ans.startswith("M=") else None
            if merged is None or [j for j, _ in merged] != sos:
                ctx.broken.append(f"mentions model: unexpected answer {ans!r} for {ments}")
                continue
            files = [dict(f) for f in files]
            for j, b in merged:
                files[j]["as_needed"] = bool(b)
        out = os.path.join(d, "out.wild")
        rc, o, e = c02.run_linker("wild", d, line, True, out, threads=r.choice([1, 4]))
        if rc != 0:
            ci = c02.canon_impl(files, rc, e, out)
        else:
            ci = "N=" + ",".join(str(x) for x in needed_of(files, out))
        reqs.append(lm.request_line(files, True))
        impl.append(ci)
        inputs.append((files, line, d))
        ctx.count("impl-outcome", "linked" if rc == 0 else ci)
        ctx.count("as-needed-libs", str(sum(1 for f in files if f["kind"] == "so" and f.get("as_needed"))))
    raw = ctx.model_eval(reqs)
    model = []
    for (files, _, _), m in zip(inputs, raw):
        cm = c02.canon_model(files, m)
        if cm.startswith("err"):
            model.append(cm)
        else:
            bits = m.split()[0][2:]
            model.append("N=" + ",".join(str(k) for k, f in enumerate(files) if f["kind"] == "so" and bits[k] == "1"))
    dis, _, _ = ctx.differential("lk-needed", reqs, impl_out=impl, model_out=model, nontrivial=lambda l, a, b: " F11" in l)
    for i, (files, line, d) in enumerate(inputs):
        if impl[i].startswith("err"):
            continue
        vs = {}
        for lk in ("ld", "lld"):
            out = os.path.join(d, "out." + lk)
            rc, o, e = c02.run_linker(lk, d, line, True, out)
            vs[lk] = ("N=" + ",".join(str(x) for x in needed_of(files, out))) if rc == 0 else "err"
        if vs["ld"] == vs["lld"] and vs["ld"] != "err" and vs["ld"] != impl[i]:
            # ld and lld let a shared object's definition satisfy a reference instead of extracting an archive member that defines
            # the name earlier on the command line; wild extracts the member (first definition wins). Which regular files take part
            # is C03's subject: DT_NEEDED is only compared when all three load the same objects and archive members.
            try:
                wb = c02.mask_so(files, lm.observe(os.path.join(d, "out.wild"), files)[0])
                lb = c02.mask_so(files, lm.observe(os.path.join(d, "out.ld"), files)[0])
            except Exception:
                wb = lb = None
            if wb is not None and wb != lb:
                ctx.count("oracle", "skipped-load-set-differs")
                continue
            ctx.cov["impl_oracle_failures"] += 1
            mine = [x for x in impl[i][2:].split(",") if x]
            theirs = [x for x in vs["ld"][2:].split(",") if x]
            extra = [x for x in mine if x not in theirs]
            missing = [x for x in theirs if x not in mine]
            # known: an as-needed library whose definition comes first but is overridden by a regular object's
            bindings = lm.model_binding(files, raw[i].split()[2:])
            explained = not missing and all(
                files[int(x)].get("as_needed") and all(bindings.get(en[1]) != "dyn" or True for en in files[int(x)]["entries"]) and
                not any(en[0] == "D" and satisfied_by(files, raw[i], int(x), en[1]) for en in files[int(x)]["entries"])
                for x in extra) and [x for x in mine if x in theirs] == theirs
            if explained:
                ctx.violation("as-needed:first-definition-overridden",
                              "an --as-needed library is listed in DT_NEEDED because it holds the FIRST definition of a referenced name although the reference binds to a regular object's definition",
                              {"request": reqs[i], "link_line": line, "wild": impl[i], "ld": vs["ld"], "lld": vs["lld"]})
            else:
                keep = os.path.join(ctx.replay_dir(), f"c37-{i}")
                shutil.copytree(d, keep, dirs_exist_ok=True)
                ctx.violation("needed:" + reqs[i], f"DT_NEEDED differs from GNU ld and lld (which agree): wild={impl[i]} ld/lld={vs['ld']}",
                              {"request": reqs[i], "link_line": line, "dir": keep, "wild": impl[i], "ld": vs["ld"], "lld": vs["lld"]})
    for _, _, d in inputs:
        shutil.rmtree(d, ignore_errors=True)


def satisfied_by(files, model_line, lib, name):
    """Does a loaded regular object's non-weak reference to `name` finally bind to library `lib`? (from the model's answer)"""
    toks = model_line.split()
    bits = toks[0][2:]
    res = dict(t.split(":") for t in toks[2:])
    if res.get(str(name)) != str(lib):
        return False
    return any(bits[k] == "1" and f["kind"] != "so" and any(en[0] == "U" and en[1] == name and not en[2] for en in f["entries"])
               for k, f in enumerate(files))
