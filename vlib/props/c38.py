"""C38 - Every function and object has one address across modules.

Tie / oracle: generated C programs (executable + 1-2 shared libraries that exchange `&func`, `&data` both ways,
compare the addresses and write through one view / read through the other), libraries built by wild AND by
GNU ld, executable linked by wild with the explicit crt/libc file list gcc uses, PIE and non-PIE
(`-fno-pic` objects force copy relocations and canonical PLT entries), IFUNCs with their address taken,
weak aliases of copy-relocated data (executable names the weak alias, library the strong symbol) and alias sets where the executable names
one symbol of the storage and only the library's own code names another (weak alias / strong alias / both; scalar in .data and array in
.bss); run natively under glibc's loader: any mismatch makes the program exit
non-zero and print which view disagrees.  The same program linked by GNU ld must exit 0 (validates the
program and the oracle).
"""
import os
import shutil

from .. import c01c38_common as cc
from .. import elfread
from .. import linkutil as lu

NEEDS_WILD = True
LEAN_MODULES = ["WildModel.Props.C38"]
THEOREMS = [
    "Wild.OneAddress.one_address_data",
    "Wild.OneAddress.one_address_func_partial",
    "Wild.OneAddress.one_address_func_of_canonical_plt",
    "Wild.OneAddress.one_address_func_witness",
    "Wild.OneAddress.ifunc_one_address",
    "Wild.OneAddress.ifunc_pie_witness",
    "Wild.OneAddress.lookup_first_definition",
]
LEVEL = "proof"
TECHNIQUE = ("Lean 4 theorems over an abstract dynamic-linking model (modules, load order, loader symbol search, wild's direct/GOT/PLT/copy-relocation "
             "decisions) + native execution of generated exe+library programs under glibc's loader, GNU ld as reference")
TRUSTED = [
    "hand-written model lean/WildModel/Model/OneAddress.lean of the decisions in elf.rs process_relocation (direct reference to a run-time-bound symbol "
    "from a non-writable section: function -> PLT, data -> copy relocation), layout.rs resolution_flags, elf.rs finalise_copy_relocations / "
    "select_copy_relocation_alternatives (export of the copy and of its aliases), elf_writer.rs write_copy_relocations / write_dynamic_file "
    "(undefined dynamic symbols are written with st_value 0); tied by native execution of generated programs and by reading the outputs' dynamic "
    "symbol tables and COPY relocations with vlib/elfread.py",
    "loader symbol search = first definition in load order exe -> libraries (glibc do_lookup_x, no versions / no RTLD_DEEPBIND / no protected data)",
    "gcc 12 (compiler for the generated programs), GNU ld 2.40 (reference linker; ld.lld 14 for the alias-set items), glibc's loader (oracle)",
]
RULE = ("generated programs: exe mode {non-PIE -fno-pic, non-PIE -fPIE objects, PIE} x libraries built by {wild, GNU ld} x 1-2 libraries x shared items "
        "{library function, library data (.data/.bss/.rodata), exe function, exe data, IFUNC in exe, IFUNC in library, weak alias of library data, alias sets of library data where exe and library use different names of one storage "
        "(exe: strong symbol / library: weak alias, strong alias, or both; exe: strong alias / library: the symbol itself; reference for these items: ld.lld, "
        "because GNU ld by design defines only the named symbol in the executable)}; "
        "all non-trivial; distinct by generated source text + mode + library linker")
ASSUMPTIONS = ["x86-64 only (native execution)", "no symbol versioning / protected visibility / dlopen in the generated programs"]


def gen_program(r, idx):
    """Returns dict: main.c, lib1.c, lib2.c (optional) + list of shared items."""
    two = r.chance(1, 2)
    items = []
    n = r.range(2, 5)
    kinds = ["lfunc", "ldata", "ldata_bss", "ldata_ro", "efunc", "edata", "eifunc", "lifunc", "lalias", "l2data", "l2func"]
    chosen = ["lfunc", "ldata"] + [r.choice(kinds) for _ in range(n)]
    if idx % 5 == 0:
        chosen.append("eifunc")
    if idx % 5 == 1:
        chosen.append("lalias")
    if idx % 5 == 2:
        chosen.append("lifunc")
    # aliases of copy-relocated data where the executable names ONE symbol of the storage and only the library's own code names another
    # (GNU ld keeps just the named symbol in the executable, so its link is not a usable reference for these: ld.lld is, see `ref`)
    chosen += [["lalias_sw", "lalias_ts"], ["lalias_sw", "lalias_st"], ["lalias_st", "lalias_multi"], ["lalias_sw", "lalias_multi"], ["lalias_ts", "lalias_sw"]][idx % 5]
    seen = set()
    for k in chosen:
        if k in ("l2data", "l2func") and not two:
            continue
        nm = f"{k}_{len(items)}"
        items.append((k, nm, r.range(1, 200), r.choice([1, 2, 4, 16])))
    main = ["#include <stdio.h>", "static int bad; static void fail(const char *what){ printf(\"MISMATCH %s\\n\", what); bad++; }"]
    lib1 = []
    lib2 = []
    checks = []
    for (k, nm, val, cnt) in items:
        if k in ("lfunc", "l2func"):
            L = lib1 if k == "lfunc" else lib2
            L.append(f"int {nm}(void){{ return {val}; }}")
            L.append(f"void *addr_{nm}(void){{ return (void*){nm}; }}")
            lib1.append(f"extern int {nm}(void); void *l1_addr_{nm}(void){{ return (void*){nm}; }}")
            main.append(f"extern int {nm}(void); extern void *addr_{nm}(void); extern void *l1_addr_{nm}(void); int (*volatile fp_{nm})(void) = {nm};")
            checks.append(f"if ((void*){nm} != addr_{nm}()) fail(\"{nm}: exe vs defining library\");")
            checks.append(f"if ((void*){nm} != l1_addr_{nm}()) fail(\"{nm}: exe vs lib1\");")
            checks.append(f"if ((void*)fp_{nm} != (void*){nm}) fail(\"{nm}: data pointer vs code reference in exe\");")
            checks.append(f"if (fp_{nm}() != {val} || {nm}() != {val}) fail(\"{nm}: call result\");")
        elif k in ("ldata", "ldata_bss", "ldata_ro", "l2data"):
            L = lib2 if k == "l2data" else lib1
            if k == "ldata_bss":
                L.append(f"int {nm}[{cnt}];")
                init = 0
            elif k == "ldata_ro":
                L.append(f"const int {nm}[{cnt}] = {{ {val} }};")
                init = val
            else:
                L.append(f"int {nm}[{cnt}] = {{ {val} }};")
                init = val
            qual = "const " if k == "ldata_ro" else ""
            L.append(f"const void *addr_{nm}(void){{ return {nm}; }} int read_{nm}(void){{ return {nm}[0]; }}")
            lib1.append(f"extern {qual}int {nm}[]; const void *l1_addr_{nm}(void){{ return {nm}; }} int l1_read_{nm}(void){{ return {nm}[0]; }}")
            main.append(f"extern {qual}int {nm}[]; extern const void *addr_{nm}(void); extern const void *l1_addr_{nm}(void); extern int read_{nm}(void); extern int l1_read_{nm}(void);"
                        f" {qual}int *volatile dp_{nm} = {nm};")
            checks.append(f"if ((const void*){nm} != addr_{nm}()) fail(\"{nm}: exe vs defining library\");")
            checks.append(f"if ((const void*){nm} != l1_addr_{nm}()) fail(\"{nm}: exe vs lib1\");")
            checks.append(f"if ((const void*)dp_{nm} != (const void*){nm}) fail(\"{nm}: data pointer vs code reference in exe\");")
            checks.append(f"if ({nm}[0] != {init} || read_{nm}() != {init}) fail(\"{nm}: initial value\");")
            if k != "ldata_ro":
                checks.append(f"{nm}[0] = {val + 1000}; if (read_{nm}() != {val + 1000} || l1_read_{nm}() != {val + 1000}) fail(\"{nm}: write through exe not seen by library\");")
        elif k == "lalias":
            lib1.append(f"int real_{nm} = {val}; extern int {nm} __attribute__((weak, alias(\"real_{nm}\")));")
            lib1.append(f"void *addr_{nm}(void){{ return &real_{nm}; }} int read_{nm}(void){{ return real_{nm}; }} void write_{nm}(int v){{ real_{nm} = v; }}")
            main.append(f"extern int {nm}; extern void *addr_{nm}(void); extern int read_{nm}(void); extern void write_{nm}(int);")
            checks.append(f"if ((void*)&{nm} != addr_{nm}()) fail(\"{nm}: weak alias in exe vs strong symbol in library\");")
            checks.append(f"write_{nm}({val + 7}); if ({nm} != {val + 7}) fail(\"{nm}: write through strong symbol not seen through alias\");")
            checks.append(f"{nm} = {val + 9}; if (read_{nm}() != {val + 9}) fail(\"{nm}: write through alias not seen through strong symbol\");")
        elif k in ("lalias_sw", "lalias_st", "lalias_ts", "lalias_multi"):
            # one storage, several names. e = the only name the executable mentions; rd / wr = the names the library's own code reads / writes through.
            s_, w_, t_ = nm, f"w_{nm}", f"t_{nm}"
            e, rd, wr = {"lalias_sw": (s_, w_, w_), "lalias_st": (s_, t_, t_), "lalias_ts": (t_, s_, s_), "lalias_multi": (s_, w_, t_)}[k]
            arr = cnt > 2           # array in .bss / scalar in .data
            lib1.append((f"int {s_}[{cnt}];" if arr else f"int {s_} = {val};") +
                        (f" extern __typeof({s_}) {w_} __attribute__((weak, alias(\"{s_}\")));" if k in ("lalias_sw", "lalias_multi") else "") +
                        (f" extern __typeof({s_}) {t_} __attribute__((alias(\"{s_}\")));" if k != "lalias_sw" else ""))
            ix = "[0]" if arr else ""
            amp = "" if arr else "&"
            init = 0 if arr else val
            lib1.append(f"void *addr_{nm}(void){{ return (void*){amp}{rd}; }} int read_{nm}(void){{ return {rd}{ix}; }} void write_{nm}(int v){{ {wr}{ix} = v; }}"
                        f" void *waddr_{nm}(void){{ return (void*){amp}{wr}; }}")
            main.append(f"extern int {e}{'[]' if arr else ''}; extern void *addr_{nm}(void); extern void *waddr_{nm}(void); extern int read_{nm}(void); extern void write_{nm}(int);")
            checks.append(f"if ((void*){amp}{e} != addr_{nm}() || (void*){amp}{e} != waddr_{nm}()) fail(\"{nm}: symbol in exe vs its alias used by the library\");")
            checks.append(f"if ({e}{ix} != {init} || read_{nm}() != {init}) fail(\"{nm}: initial value\");")
            checks.append(f"{e}{ix} = {val + 1000}; if (read_{nm}() != {val + 1000}) fail(\"{nm}: write in exe not seen by the library through the alias\");")
            checks.append(f"write_{nm}({val + 7}); if ({e}{ix} != {val + 7}) fail(\"{nm}: write by the library through the alias not seen in exe\");")
        elif k == "efunc":
            main.append(f"int {nm}(void){{ return {val}; }} extern void *l1_addr_{nm}(void); extern int l1_call_{nm}(void);")
            lib1.append(f"extern int {nm}(void); void *l1_addr_{nm}(void){{ return (void*){nm}; }} int l1_call_{nm}(void){{ return {nm}(); }}")
            checks.append(f"if ((void*){nm} != l1_addr_{nm}()) fail(\"{nm}: exe function seen from lib1\");")
            checks.append(f"if (l1_call_{nm}() != {val}) fail(\"{nm}: call from lib1\");")
        elif k == "edata":
            main.append(f"int {nm}[{cnt}] = {{ {val} }}; extern void *l1_addr_{nm}(void); extern int l1_read_{nm}(void);")
            lib1.append(f"extern int {nm}[]; void *l1_addr_{nm}(void){{ return {nm}; }} int l1_read_{nm}(void){{ return {nm}[0]; }}")
            checks.append(f"if ((void*){nm} != l1_addr_{nm}()) fail(\"{nm}: exe data seen from lib1\");")
            checks.append(f"{nm}[0] = {val + 5}; if (l1_read_{nm}() != {val + 5}) fail(\"{nm}: write in exe not seen by lib1\");")
        elif k == "eifunc":
            main.append(f"static int impl_{nm}(void){{ return {val}; }} static void *res_{nm}(void){{ return (void*)impl_{nm}; }}"
                        f" int {nm}(void) __attribute__((ifunc(\"res_{nm}\"))); extern void *l1_addr_{nm}(void); extern int l1_call_{nm}(void);"
                        f" int (*volatile fp_{nm})(void) = {nm};")
            # glibc refuses a library reference to an IFUNC defined in a PIE ("unsatisfiable circular dependency"): only for non-PIE
            lib1.append(f"#ifdef EIFUNC_FROM_LIB\nextern int {nm}(void); void *l1_addr_{nm}(void){{ return (void*){nm}; }} int l1_call_{nm}(void){{ return {nm}(); }}\n#endif")
            checks.append(f"if ((void*)fp_{nm} != (void*){nm}) fail(\"{nm}: ifunc address in data vs code in exe\");")
            checks.append(f"\n#ifdef EIFUNC_FROM_LIB\n    if ((void*){nm} != l1_addr_{nm}()) fail(\"{nm}: exe ifunc address seen from lib1\");"
                          f" if (l1_call_{nm}() != {val}) fail(\"{nm}: ifunc call from lib1\");\n#endif")
            checks.append(f"if ({nm}() != {val} || fp_{nm}() != {val}) fail(\"{nm}: ifunc call result\");")
        elif k == "lifunc":
            lib1.append(f"static int impl_{nm}(void){{ return {val}; }} static void *res_{nm}(void){{ return (void*)impl_{nm}; }}"
                        f" int {nm}(void) __attribute__((ifunc(\"res_{nm}\"))); void *addr_{nm}(void){{ return (void*){nm}; }}")
            main.append(f"extern int {nm}(void); extern void *addr_{nm}(void); int (*volatile fp_{nm})(void) = {nm};")
            checks.append(f"if ((void*){nm} != addr_{nm}()) fail(\"{nm}: library ifunc address exe vs library\");")
            checks.append(f"if ((void*)fp_{nm} != (void*){nm}) fail(\"{nm}: library ifunc address data vs code in exe\");")
            checks.append(f"if ({nm}() != {val} || fp_{nm}() != {val}) fail(\"{nm}: ifunc call result\");")
    main.append("int main(void){")
    main += ["    " + c for c in checks]
    main.append("    if (!bad) printf(\"OK\\n\"); return bad ? 1 : 0; }")
    return {"main": "\n".join(main) + "\n", "lib1": "\n".join(lib1) + "\n", "lib2": ("\n".join(lib2) + "\n") if two else None,
            "items": items, "ref": "lld" if any(it[0] in ALIAS_KINDS for it in items) else "ld"}


MODES = [("nopic", "dyn", ["-fno-pic", "-fno-pie", "-O1"]), ("pieobj-nopie", "dyn", ["-fPIE", "-O1"]), ("pie", "pie", ["-fPIE", "-O1"]),
         ("nopic-O0", "dyn", ["-fno-pic", "-fno-pie", "-O0"])]


def build_and_run(ctx, d, prog, mode, liblinker, exelinker):
    """-> (status, output) status in ok/mismatch/link-fail/crash"""
    mname, lmode, cflags = mode
    os.makedirs(d, exist_ok=True)
    libs = []
    lib_objs = []
    if prog["lib2"]:
        o2 = lu.cc_obj(d, "lib2", prog["lib2"], ["-fPIC", "-O1"])
        so2 = os.path.join(d, "libtwo.so")
        rc, so, se = cc.link_so(liblinker, [o2], so2)
        if rc != 0:
            return "lib-link-fail", se
        libs.append(so2)
    edef = ["-DEIFUNC_FROM_LIB"] if lmode != "pie" else []
    o1 = lu.cc_obj(d, "lib1", prog["lib1"], ["-fPIC", "-O1"] + edef)
    so1 = os.path.join(d, "libone.so")
    rc, so, se = cc.link_so(liblinker, [o1], so1, libs=libs, extra=["-z", "undefs"] if liblinker == "ld" else [])
    if rc != 0:
        return "lib-link-fail", se
    mo = lu.cc_obj(d, "main", prog["main"], cflags + edef)
    exe = os.path.join(d, "main." + exelinker)
    rc, so, se = cc.link_c(exelinker, lmode, [mo], exe, libs=[so1] + libs, extra=["--export-dynamic"] if False else [])
    if rc != 0:
        return "link-fail", se
    rc, out, err = cc.run_exe(exe, libdir=d)
    if rc == 0 and out.strip() == "OK":
        return "ok", out
    if "MISMATCH" in out:
        return "mismatch", out
    return "crash", f"rc={rc} {out[-300:]} {err[-300:]}"


ALIAS_KINDS = ("lalias_sw", "lalias_st", "lalias_ts", "lalias_multi")


def reference(ctx, dref, prog, mode, i):
    """The same program with everything linked by GNU ld.  GNU ld 2.40 gives a copy-relocated object only the name the executable mentions (plus the strong
    symbol behind a weak one), so the alias items of ALIAS_KINDS mismatch in its link by design; those items are validated with ld.lld (which, like wild,
    defines every alias of the storage in the executable) and their lines are dropped from GNU ld's output."""
    rst, rout = build_and_run(ctx, dref, prog, mode, "ld", "ld")
    if prog["ref"] != "lld" or rst != "mismatch":
        return rst, rout
    lst, lout = build_and_run(ctx, dref + "-lld", prog, mode, "lld", "lld")
    ctx.count("reference-lld", lst)
    if lst not in ("ok", "mismatch") or any(k in ALIAS_KINDS for (k, _) in classify(lout)):
        ctx.broken.append(f"generated program {i} ({mode[0]}): alias items fail with ld.lld too: {lst} {lout[:200]}")
    shutil.rmtree(dref + "-lld", ignore_errors=True)
    kept = [l for l in rout.split("\n") if not (l.startswith("MISMATCH") and l[len("MISMATCH "):].split(":")[0].rsplit("_", 1)[0] in ALIAS_KINDS)]
    return ("mismatch" if any(l.startswith("MISMATCH") for l in kept) else "ok"), "\n".join(kept)


def classify(out):
    """mismatch lines -> set of finding keys"""
    keys = set()
    for l in out.split("\n"):
        if not l.startswith("MISMATCH"):
            continue
        what = l[len("MISMATCH "):]
        kind = what.split(":")[0].rsplit("_", 1)[0].strip()
        keys.add((kind, what.split(": ", 1)[1] if ": " in what else what))
    return keys


def run(ctx):
    r = ctx.rng
    n = 5 if ctx.quick else 60
    total = 0
    for i in range(n):
        prog = gen_program(r.fork(), i)
        for mode in MODES[:3] if ctx.quick else MODES:
            for liblinker in (("wild", "ld") if (i + MODES.index(mode)) % 2 == 0 or not ctx.quick else ("wild",)):
                d = os.path.join(ctx.scratch, f"p{i}-{mode[0]}-{liblinker}")
                total += 1
                try:
                    st, out = build_and_run(ctx, d, prog, mode, liblinker, "wild")
                except RuntimeError as ex:
                    ctx.count("result", "compile-failed")
                    ctx.broken.append(f"generated program {i} does not compile: {str(ex)[:300]}")
                    continue
                ctx.note_case((prog["main"], prog["lib1"], mode[0], liblinker))
                ctx.count("mode", mode[0])
                ctx.count("lib-linker", liblinker)
                for it in prog["items"]:
                    ctx.count("item", it[0])
                ctx.count("result", st)
                if st == "ok":
                    shutil.rmtree(d, ignore_errors=True)
                    continue
                # reference: the same program with everything linked by GNU ld
                dref = d + "-ref"
                rst, rout = reference(ctx, dref, prog, mode, i)
                ctx.count("reference", rst)
                ref_keys = classify(rout) if rst == "mismatch" else set()
                ifunc_pie_only = rst == "mismatch" and mode[1] == "pie" and all(k in ("eifunc", "lifunc") for (k, _) in ref_keys)
                if rst != "ok":
                    ctx.count("result", "reference-also-fails")
                    if not ifunc_pie_only:
                        ctx.broken.append(f"generated program {i} ({mode[0]}) fails with GNU ld too: {rst} {rout[:200]}")
                        continue
                    if st == "mismatch":
                        for (kind, what) in sorted(classify(out) & ref_keys):
                            # the property demands equality whatever GNU ld does
                            ctx.violation("ifunc-pie:" + what, f"PIE linked by wild: {kind}: {what} (GNU ld 2.40 shows the same inequality)",
                                          {"mode": mode[0], "output": out[-800:], "ld_output": rout[-800:]})
                        only_wild = classify(out) - ref_keys
                        for (kind, what) in sorted(only_wild):
                            ctx.cov["impl_oracle_failures"] += 1
                            ctx.violation(f"addr:{mode[0]}:{kind}:{what}", f"{mode[0]} executable linked by wild: {kind}: {what} (not reported by GNU ld's link)", {"output": out[-800:]})
                        continue
                ctx.cov["impl_oracle_failures"] += 1
                keep = os.path.join(ctx.replay_dir(), f"c38-p{i}-{mode[0]}-{liblinker}")
                shutil.copytree(d, keep, dirs_exist_ok=True)
                how = f"cd {keep} && LD_LIBRARY_PATH=. ./main.wild   (sources main.c lib1.c lib2.c; libraries linked by {liblinker}, executable by wild, gcc flags {mode[2]})"
                if st == "mismatch":
                    for (kind, what) in sorted(classify(out)):
                        key = f"addr:{mode[0]}:{kind}:{what}"
                        if kind in ("lfunc", "l2func", "lifunc") and mode[1] == "dyn" and "-fno-pic" in mode[2]:
                            # one root cause: the PLT entry a non-PIC executable uses as `&f` is not advertised to the loader
                            key = "canonical-plt:" + what
                        ctx.violation(key, f"{mode[0]} executable linked by wild: {kind}: {what} (GNU ld's link of the same program reports no mismatch)",
                                      {"dir": keep, "how": how, "output": out[-1500:]})
                else:
                    ctx.violation(f"{st}:{mode[0]}", f"{mode[0]} program linked by wild: {st}: {out[:300]} (works when linked by GNU ld)",
                                  {"dir": keep, "how": how, "output": out[-1500:]})
                shutil.rmtree(dref, ignore_errors=True)
    ctx.cov["programs_run"] = total
