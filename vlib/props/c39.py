"""C39 - Parallel layout traversal loses no work and always finishes.

Proof: lean/WildModel/Props/C39.lean over the interleaving model lean/WildModel/Model/ProtoLayout.lean.
Tie (T4): real links with the hooked wild (libwild/src/verif_api/trace.rs + cfg(verif) blocks in layout.rs)
under thread counts x group sizes x schedule perturbation seeds; every recorded trace is replayed through
the model's `step?` by the Lean driver (`pl-replay`), the model's invariant is evaluated after every event
and the terminal predicate at the end. Independent oracle: the kept functions of the output (nm) must be
exactly the closure computed in Python from the generated reference graph, and must not depend on the
schedule; a link that does not finish within the timeout violates "always finishes".
Shape tie (T2): the statement sequence inside the lock scopes of `send_work` / `do_pending_work` /
`activate_group` is extracted from layout.rs and compared with the expected shape next to the model.
"""
import hashlib
import json
import os
import re
import shutil
import subprocess
import time

from .. import runner

LEAN_MODULES = ["WildModel.Props.C39"]
THEOREMS = [
    "Wild.ProtoLayout.inv_init",
    "Wild.ProtoLayout.inv_step",
    "Wild.ProtoLayout.inv_reachable",
    "Wild.ProtoLayout.single_owner",
    "Wild.ProtoLayout.pending_not_parked",
    "Wild.ProtoLayout.delay_slot_free",
    "Wild.ProtoLayout.terminal_iff",
    "Wild.ProtoLayout.terminal_quiescent",
    "Wild.ProtoLayout.dropped_implies_failure",
    "Wild.ProtoLayout.measure_decreases",
    "Wild.ProtoLayout.run_length_le",
    "Wild.ProtoLayout.terminates",
    "Wild.ProtoLayout.processed_sound",
    "Wild.ProtoLayout.terminal_is_closure",
    "Wild.ProtoLayout.invCheck_of_inv",
    "Wild.ProtoLayout.workers_nodup",
    "Wild.ProtoLayout.finite_run_reaches_terminal",
    "Wild.ProtoLayout.sent_is_accounted",
    "Wild.ProtoLayout.delayed_group_runs_last",
]
LEVEL = "proof"
NEEDS_WILD = True
TRUSTED = [
    "hand-written interleaving model lean/WildModel/Model/ProtoLayout.lean of layout.rs (send_work, do_pending_work, activate_group); "
    "tied by trace inclusion (pl-replay) on instrumented links and by the lock-scope shape extraction",
    "rayon modelled as: any spawned task may take the next step, the scope returns only when no task is left",
    "Mutex / atomics modelled as sequentially consistent interleaving; weak memory not modelled "
    "(activations_remaining.fetch_sub(Relaxed) ordering delay_processing.push before another thread's pop is assumed)",
    "trace recorder libwild/src/verif_api/trace.rs (events written while the slot lock / recorder lock is held) and the graph "
    "reconstruction from the trace in vlib/props/c39.py",
    "nm (binutils) to read the kept symbols of the output",
]
RULE = ("one case = one instrumented link (program x threads x files-per-group x perturbation seed) whose trace is replayed in the model; "
        "non-trivial = the trace contains at least one cross-group send; distinct by hash of the event sequence")
ASSUMPTIONS = [
    "sequentially consistent memory model",
    "the work done for one item between two protocol operations is sequential and touches only the owning group's state",
]

REPO = runner.REPO
LAYOUT_RS = os.path.join(REPO, "libwild", "src", "layout.rs")
SCRATCH_KEEP = os.path.join(runner.VERIF, "scratch", "c39")
LINK_TIMEOUT = 60

# --------------------------------------------------------------------------------------------------
# Shape tie: statement sequence of the lock scopes.

EXPECTED_SHAPE = {
    "send_work": ["LOCK worker_slots[file_id.group()]", "worker = slot.worker.take()", "slot.work.push(work)", "UNLOCK",
                  "if let Some(worker) = worker", "scope.spawn", "worker.do_pending_work"],
    "do_pending_work": ["loop", "while let Some(work_item) = self.queue.local_work.pop()", "do_work", "report_error", "return",
                        "LOCK worker_slots[self.queue.index]", "if slot.work.is_empty()", "slot.worker = Some(self)", "return",
                        "swap(&mut slot.work, &mut self.queue.local_work)", "UNLOCK"],
    "activate_group": ["activate", "errors.push", "if should_delay_processing", "delay_processing.push(group)", "else",
                       "group.do_pending_work", "fetch_sub(1)", "if remaining == 0", "while delay_processing.pop()",
                       "group.do_pending_work"],
}


def _fn_body(src, header_re):
    m = re.search(header_re, src)
    if not m:
        return None
    m2 = re.compile(r"\n\s*\)\s*(->[^{;]*)?\{").search(src, m.start())
    if not m2:
        return None
    start = m2.end() - 1
    depth = 0
    j = start
    while j < len(src):
        if src[j] == "{":
            depth += 1
        elif src[j] == "}":
            depth -= 1
            if depth == 0:
                return src[start:j + 1]
        j += 1
    return None


def _strip_verif(body):
    """Remove `#[cfg(feature = "verif")]` statements / blocks and comments."""
    out = []
    lines = body.split("\n")
    i = 0
    while i < len(lines):
        l = lines[i]
        if l.strip().startswith("#[cfg(feature = \"verif\")]"):
            i += 1
            # skip one statement or one block
            depth = 0
            while i < len(lines):
                s = lines[i]
                depth += s.count("{") + s.count("(") - s.count("}") - s.count(")")
                i += 1
                if depth <= 0 and (s.rstrip().endswith(";") or s.rstrip().endswith("}")):
                    break
            continue
        out.append(re.sub(r"//.*", "", l))
        i += 1
    return "\n".join(out)


def extract_shape(src):
    shape = {}
    pats = {
        "send_work": (r"fn send_work<'scope, A: Arch<Platform = P>>\(\s*&self,", [
            (r"self\.worker_slots\[file_id\.group\(\)\]\.lock\(\)", "LOCK worker_slots[file_id.group()]"),
            (r"worker = slot\.worker\.take\(\)", "worker = slot.worker.take()"),
            (r"slot\.work\.push\(work\)", "slot.work.push(work)"),
            (r"\n\s*\};", "UNLOCK"),
            (r"if let Some\(worker\) = worker", "if let Some(worker) = worker"),
            (r"scope\.spawn", "scope.spawn"),
            (r"worker\.do_pending_work", "worker.do_pending_work"),
            (r"slot\.work\.is_empty\(\)", "slot.work.is_empty()"),
            (r"drop\(slot\)", "drop(slot)"),
        ]),
        "do_pending_work": (r"fn do_pending_work<'scope, A: Arch<Platform = P>>\(", [
            (r"\bloop \{", "loop"),
            (r"while let Some\(work_item\) = self\.queue\.local_work\.pop\(\)", "while let Some(work_item) = self.queue.local_work.pop()"),
            (r"\.do_work::<A>", "do_work"),
            (r"resources\.report_error", "report_error"),
            (r"\breturn;", "return"),
            (r"resources\.worker_slots\[self\.queue\.index\]\.lock\(\)", "LOCK worker_slots[self.queue.index]"),
            (r"if slot\.work\.is_empty\(\)", "if slot.work.is_empty()"),
            (r"slot\.worker = Some\(self\)", "slot.worker = Some(self)"),
            (r"swap\(&mut slot\.work, &mut self\.queue\.local_work\)", "swap(&mut slot.work, &mut self.queue.local_work)"),
            (r"\n\s*\};", "UNLOCK"),
            (r"drop\(slot\)", "drop(slot)"),
        ]),
        "activate_group": (r"fn activate_group<'scope, A: Arch<Platform = P>>\(", [
            (r"activate::<A>\(", "activate"),
            (r"resources\.errors\.lock\(\)\.unwrap\(\)\.push", "errors.push"),
            (r"if should_delay_processing \{", "if should_delay_processing"),
            (r"resources\.delay_processing\.push\(group\)", "delay_processing.push(group)"),
            (r"\} else \{", "else"),
            (r"group\.do_pending_work", "group.do_pending_work"),
            (r"\.fetch_sub\(1,", "fetch_sub(1)"),
            (r"if remaining == 0", "if remaining == 0"),
            (r"while let Some\(group\) = resources\.delay_processing\.pop\(\)", "while delay_processing.pop()"),
        ]),
    }
    for name, (hdr, toks) in pats.items():
        body = _fn_body(src, hdr)
        if body is None:
            shape[name] = None
            continue
        body = _strip_verif(body)
        found = []
        for pat, label in toks:
            for m in re.finditer(pat, body):
                found.append((m.start(), label))
        found.sort()
        shape[name] = [l for _, l in found]
    return shape


# --------------------------------------------------------------------------------------------------
# Program generator: N objects, one function per section, random cross-object call/data graph,
# archives (late activation of groups / unloaded members), start/stop sets (delayed synthetic group).

class Program:
    def __init__(self):
        self.objs = []          # list of dict(name, funcs=[...], in_archive=None|archive index)
        self.funcs = {}         # fname -> dict(obj, calls=[fname], sets=[setname referenced via __start_], member_of=[setname])
        self.setmembers = {}    # setname -> [(obj index, target fname)]
        self.order = []         # link line order: ("o", obj index) | ("a", archive index)
        self.archives = []      # list of [obj index]
        self.entry_calls = []


def gen_program(rng, nobj, quick):
    p = Program()
    nf_per = rng.range(1, 4)
    names = []
    for oi in range(nobj):
        fs = []
        for k in range(rng.range(1, nf_per)):
            fn = f"f{oi}_{k}"
            fs.append(fn)
            names.append(fn)
            p.funcs[fn] = {"obj": oi, "calls": [], "sets": [], "data": rng.chance(1, 3)}
        p.objs.append({"name": f"o{oi}", "funcs": fs, "archive": None})
    nsets = rng.range(0, 2) if nobj >= 3 else rng.range(0, 1)
    setnames = [f"wvset{k}" for k in range(nsets)]
    for sn in setnames:
        # object index -1 = start.o (always loaded): the set is never empty, so __start_/__stop_ are defined
        p.setmembers[sn] = [(-1, rng.choice(names))]
        for oi in range(nobj):
            if rng.chance(1, 3):
                p.setmembers[sn].append((oi, rng.choice(names)))
    # edges: both directions, some long chains ping-ponging between objects
    for fn in names:
        deg = rng.choice([0, 1, 1, 2, 2, 3, 5])
        for _ in range(deg):
            p.funcs[fn]["calls"].append(rng.choice(names))
        if setnames and rng.chance(1, 6):
            p.funcs[fn]["sets"].append(rng.choice(setnames))
    # a ping-pong chain to force many cross-group round trips
    if nobj >= 2 and rng.chance(2, 3):
        chain = [rng.choice(names) for _ in range(rng.range(4, 24))]
        for a, b in zip(chain, chain[1:]):
            p.funcs[a]["calls"].append(b)
        p.entry_calls.append(chain[0])
    for _ in range(rng.range(1, 3)):
        p.entry_calls.append(rng.choice(names))
    # archives: a suffix of the objects is split into 0..2 archives
    plain = list(range(nobj))
    if nobj >= 3 and rng.chance(2, 3):
        na = rng.range(1, 2)
        k = rng.range(1, max(1, nobj // 2))
        arch_objs = plain[-k:]
        plain = plain[:-k]
        for a in range(na):
            p.archives.append([])
        for oi in arch_objs:
            a = rng.below(na)
            p.archives[a].append(oi)
            p.objs[oi]["archive"] = a
        p.archives = [a for a in p.archives if a]
        for ai, a in enumerate(p.archives):
            for oi in a:
                p.objs[oi]["archive"] = ai
    order = [("o", oi) for oi in plain] + [("a", ai) for ai in range(len(p.archives))]
    p.order = rng.shuffle(order)
    # a third of the programs also link a shared library and refer to its data both through the GOT and directly (the direct
    # reference of non-PIC code makes the shared-object group set up a copy relocation: one more kind of cross-group request,
    # which may reach the symbol before or after the plain symbol request of another file)
    p.shared_vars = []
    if rng.chance(1, 3):
        p.shared_vars = [f"wvsv{k}" for k in range(rng.range(1, 3))]
        for fn in names:
            f = p.funcs[fn]
            f["svgot"] = [v for v in p.shared_vars if rng.chance(1, 4)]
            f["svdir"] = [v for v in p.shared_vars if rng.chance(1, 4)]
        first = p.funcs[p.entry_calls[0]]
        v = rng.choice(p.shared_vars)
        # one function that is certainly kept has both forms in a random order
        first["svboth"] = (v, rng.chance(1, 2))
    return p


def render_obj(p, oi):
    o = p.objs[oi]
    out = []
    for fn in o["funcs"]:
        f = p.funcs[fn]
        # the references sit after the `ret`: the relocations are what matters, the program must still run
        out.append(f'.section .text.{fn},"ax",@progbits\n.globl {fn}\n.type {fn},@function\n{fn}:\n  ret')
        for c in f["calls"]:
            out.append(f"  call {c}")
        for sn in f["sets"]:
            out.append(f"  lea __start_{sn}(%rip),%rax\n  lea __stop_{sn}(%rip),%rdx")
        if f["data"]:
            out.append(f"  lea d_{fn}(%rip),%rax")
        if f.get("svboth"):
            v, got_first = f["svboth"]
            forms = [f"  mov {v}@GOTPCREL(%rip),%rax", f"  mov {v}(%rip),%rax"]
            out += forms if got_first else forms[::-1]
        for v in f.get("svgot", []):
            out.append(f"  mov {v}@GOTPCREL(%rip),%rax")
        for v in f.get("svdir", []):
            out.append(f"  mov {v}(%rip),%rax")
        out.append("  ret")
        if f["data"]:
            out.append(f'.section .data.d_{fn},"aw",@progbits\n.globl d_{fn}\nd_{fn}:\n  .quad 1')
    for sn, mem in p.setmembers.items():
        for (moi, tgt) in mem:
            if moi == oi:
                out.append(f'.section {sn},"aw",@progbits\n  .quad {tgt}')
    return "\n".join(out) + "\n"


def render_start(p):
    out = ['.section .text._start,"ax",@progbits\n.globl _start\n_start:']
    for c in p.entry_calls:
        out.append(f"  call {c}")
    out.append("  mov $60,%eax\n  xor %edi,%edi\n  syscall")
    for sn, mem in p.setmembers.items():
        for (moi, tgt) in mem:
            if moi == -1:
                out.append(f'.section {sn},"aw",@progbits\n  .quad {tgt}')
    out.append("")
    return "\n".join(out)


def expected_kept(p):
    """Independent oracle: which functions / data symbols must be in the output.
    1. archive member loading (symbol resolution): a member is loaded iff it defines a symbol that a
       loaded object references (any section, GC does not matter). 2. section reachability from _start
       inside the loaded objects; a referenced __start_/__stop_ symbol keeps every section of that set in
       every loaded object."""
    defs = {fn: p.funcs[fn]["obj"] for fn in p.funcs}
    def obj_refs(oi):
        r = set()
        for fn in p.objs[oi]["funcs"]:
            r.update(p.funcs[fn]["calls"])
        for sn, mem in p.setmembers.items():
            for (moi, tgt) in mem:
                if moi == oi:
                    r.add(tgt)
        return r
    loaded = set(oi for oi, o in enumerate(p.objs) if o["archive"] is None)
    work = list(loaded)
    loaded.add(-1)
    for sn, mem in p.setmembers.items():
        pend_refs_start = [tgt for (moi, tgt) in mem if moi == -1]
        p._start_refs = getattr(p, "_start_refs", set()) | set(pend_refs_start)
    pend_refs = set(p.entry_calls) | getattr(p, "_start_refs", set())
    for oi in work:
        pend_refs |= obj_refs(oi)
    changed = True
    while changed:
        changed = False
        for s in list(pend_refs):
            oi = defs.get(s)
            if oi is not None and oi not in loaded:
                loaded.add(oi)
                pend_refs |= obj_refs(oi)
                changed = True
    kept = set()
    sets_kept = set()
    todo = list(p.entry_calls)
    while todo:
        fn = todo.pop()
        if fn in kept:
            continue
        kept.add(fn)
        f = p.funcs[fn]
        todo.extend(f["calls"])
        for sn in f["sets"]:
            if sn not in sets_kept:
                sets_kept.add(sn)
                for (moi, tgt) in p.setmembers[sn]:
                    if moi in loaded:
                        todo.append(tgt)
    syms = set(kept)
    for fn in kept:
        if p.funcs[fn]["data"]:
            syms.add("d_" + fn)
    return syms, loaded


def build_program(p, d):
    os.makedirs(d, exist_ok=True)
    objs = {}
    def asm(name, text):
        s = os.path.join(d, name + ".s")
        with open(s, "w") as f:
            f.write(text)
        o = os.path.join(d, name + ".o")
        r = subprocess.run(["as", "--64", "-o", o, s], stdout=subprocess.PIPE, stderr=subprocess.STDOUT, text=True)
        if r.returncode != 0:
            raise runner.BuildError("as failed: " + r.stdout[-500:])
        return o
    start = asm("start", render_start(p))
    for oi, o in enumerate(p.objs):
        objs[oi] = asm(o["name"], render_obj(p, oi))
    args = [start]
    for kind, idx in p.order:
        if kind == "o":
            args.append(objs[idx])
        else:
            a = os.path.join(d, f"lib{idx}.a")
            if os.path.exists(a):
                os.unlink(a)
            subprocess.run(["ar", "rc", a] + [objs[oi] for oi in p.archives[idx]], check=True)
            args.append(a)
    if getattr(p, "shared_vars", None):
        lo = asm("libsv", "".join(f'.data\n.globl {v}\n.type {v},@object\n.size {v},8\n{v}:\n  .quad {7 + k}\n' for k, v in enumerate(p.shared_vars)))
        lib = os.path.join(d, "libsv.so")
        r = subprocess.run(["ld", "-shared", "-o", lib, lo], stdout=subprocess.PIPE, stderr=subprocess.STDOUT, text=True)
        if r.returncode != 0:
            raise runner.BuildError("ld -shared failed: " + r.stdout[-300:])
        args += ["--dynamic-linker=/lib64/ld-linux-x86-64.so.2", "-rpath", d, lib]
    return args


# --------------------------------------------------------------------------------------------------
# Trace -> model request

class TraceError(Exception):
    pass


def parse_trace(path):
    evs = []
    with open(path) as f:
        for line in f:
            t = line.split()
            if len(t) < 3:
                continue
            evs.append((int(t[0]), int(t[1]), t[2], t[3:]))
    return evs


def trace_to_request(evs):
    """Reconstruct the request graph from the run and encode graph + events for `pl-replay`.
    Returns (request line, info dict). Also checks thread consistency of the owner of each group
    (S1 on the real run: between activate/enter/resume and park/error/delay all events of a group come
    from one thread)."""
    if not evs or evs[0][2] != "init":
        raise TraceError("trace does not start with init")
    ng = int(evs[0][3][0])
    items = {}
    def item_id(s):
        if s not in items:
            items[s] = len(items)
        return items[s]
    roots = {}
    gen = {}
    cur = {}          # group -> key under which requests are currently attributed: ("r", g) | ("i", item id) | None
    owner_thread = {}
    processed = set()
    delayed = None
    out = []
    nsend = nx = 0
    thread_problems = []
    def own(g, th, starting=False):
        if starting:
            owner_thread[g] = th
        elif owner_thread.get(g) != th:
            thread_problems.append((g, th, owner_thread.get(g)))
    def attribute(g, to, it, direct):
        k = cur.get(g)
        if k is None:
            return  # the model will reject: nothing left in the outbox
        if k[0] == "r":
            roots.setdefault(g, []).append((to, it, direct))
        elif k[0] == "i":
            gen.setdefault(k[1], []).append((to, it, direct))
    for seq, th, ev, a in evs[1:]:
        if ev == "activate":
            g = int(a[0]); own(g, th, True); cur[g] = ("r", g); out.append(f"a,{g}")
        elif ev == "lpush":
            g = int(a[0]); it = item_id(a[1]); own(g, th); attribute(g, g, it, 0); out.append(f"l,{g},{it}")
        elif ev == "send":
            if a[0] == "-":
                raise TraceError("send outside a traversal task")
            fr = int(a[0]); to = int(a[1]); it = item_id(a[2]); took = int(a[3]); own(fr, th)
            attribute(fr, to, it, 1 if fr == to else 0)
            nsend += 1
            if fr != to:
                nx += 1
            out.append(f"s,{fr},{to},{it},{took}")
        elif ev == "enter":
            g = int(a[0]); own(g, th, True); cur[g] = None; out.append(f"n,{g}")
        elif ev == "pop":
            g = int(a[0]); it = item_id(a[1]); own(g, th)
            # only the first processing of a receiver-deduplicated item generates; a symbol item always does
            first = it not in processed
            processed.add(it)
            is_once = a[1][0] in "yc"
            cur[g] = ("i", it) if (first or is_once) and it not in gen else None
            out.append(f"p,{g},{it}")
        elif ev == "park":
            g = int(a[0]); own(g, th); cur[g] = None; out.append(f"k,{g}")
        elif ev == "swap":
            g = int(a[0]); own(g, th); cur[g] = None; out.append(f"w,{g},{int(a[1])}")
        elif ev == "error":
            g = int(a[0]); own(g, th); cur[g] = None; out.append(f"x,{g}")
        elif ev == "delay":
            g = int(a[0]); own(g, th); cur[g] = None; delayed = g; out.append(f"d,{g}")
        elif ev == "finish":
            out.append(f"f,{int(a[0])}")
        elif ev == "resume":
            g = int(a[0]); own(g, th, True); out.append(f"r,{g}")
        elif ev == "end":
            out.append(f"e,{int(a[0])},{int(a[1])}")
        else:
            raise TraceError("unknown event " + ev)
    once = [str(i) for s, i in items.items() if s[0] in "yc"]
    def tab(d):
        if not d:
            return "-"
        return ";".join(f"{k}:" + ",".join(f"{to}.{it}.{dr}" for (to, it, dr) in v) for k, v in sorted(d.items()))
    line = "pl-replay {} {} {} {} {} {} {}".format(
        ng, len(items), "-" if delayed is None else delayed, ",".join(once) if once else "-", tab(roots), tab(gen), ";".join(out))
    info = {"groups": ng, "items": len(items), "events": len(out), "sends": nsend, "cross_sends": nx, "delayed": delayed,
            "popped": sorted(s for s, i in items.items() if i in processed), "thread_problems": thread_problems}
    return line, info


# --------------------------------------------------------------------------------------------------

def nm_defined(path):
    r = subprocess.run(["nm", "--defined-only", path], stdout=subprocess.PIPE, stderr=subprocess.DEVNULL, text=True)
    syms = set()
    for l in r.stdout.split("\n"):
        t = l.split()
        if len(t) == 3:
            syms.add(t[2])
    return syms


def link_once(args, out, trace, threads, fpg, seed, extra=()):
    env = dict(os.environ)
    env["WILD_VERIF_TRACE"] = trace
    env.pop("WILD_VERIF_SCHED", None)
    env.pop("WILD_VERIF_SCHED_LAYOUT", None)
    if seed is not None:
        # perturb only the layout traversal (WILD_VERIF_SCHED would also perturb other hooked protocols)
        env["WILD_VERIF_SCHED_LAYOUT"] = str(seed)
    env.pop("WILD_FILES_PER_GROUP", None)
    if fpg is not None:
        env["WILD_FILES_PER_GROUP"] = str(fpg)
    for f in (trace, out):
        if os.path.exists(f):
            os.unlink(f)
    cmd = [runner.WILD, "--gc-sections", "--no-fork", f"--threads={threads}", "-o", out] + list(extra) + list(args)
    t0 = time.time()
    try:
        p = subprocess.run(cmd, env=env, stdout=subprocess.PIPE, stderr=subprocess.PIPE, text=True, timeout=LINK_TIMEOUT)
        rc, err = p.returncode, p.stderr
    except subprocess.TimeoutExpired:
        rc, err = -999, "TIMEOUT"
    envs = {k: env[k] for k in ("WILD_VERIF_TRACE", "WILD_VERIF_SCHED_LAYOUT", "WILD_FILES_PER_GROUP") if k in env}
    return rc, err, cmd, envs, time.time() - t0


def keep_replay(ctx, tag, files):
    """Copy trace / inputs of a failing case to /verif/replays/C39-<tag>/ (ctx.scratch is deleted)."""
    d = os.path.join(runner.VERIF, "replays", f"C39-{tag}")
    os.makedirs(d, exist_ok=True)
    res = []
    for f in files:
        if f and os.path.exists(f):
            if os.path.isdir(f):
                dst = os.path.join(d, os.path.basename(f))
                shutil.rmtree(dst, ignore_errors=True)
                shutil.copytree(f, dst)
            else:
                dst = os.path.join(d, os.path.basename(f))
                shutil.copy(f, dst)
            res.append(dst)
    return res


def check_shape(ctx):
    try:
        src = open(LAYOUT_RS).read()
    except OSError as e:
        ctx.broken.append(f"shape: cannot read layout.rs: {e}")
        return False
    shape = extract_shape(src)
    ok = shape == EXPECTED_SHAPE
    ctx.count("shape", "match" if ok else "changed")
    if not ok:
        diffs = {k: {"expected": EXPECTED_SHAPE[k], "found": shape.get(k)} for k in EXPECTED_SHAPE if shape.get(k) != EXPECTED_SHAPE[k]}
        ctx.shape_diff = diffs
        ctx.broken.append("shape: lock-scope statement sequence of layout.rs changed: " + json.dumps(diffs)[:600])
    return ok


def explore_small(ctx):
    """Explicit-state exploration of the model on small instances (2-3 groups, 3-4 items): every
    interleaving reaches a quiescent terminal state. Cheap regression for the model itself; after a
    shape change it is the place to encode the new shape."""
    lines = [
        # 2 groups ping-pong: roots: g0 sends item0 to g1; item0 -> item1@g0 ; item1 -> item2@g1
        "pl-explore 2 3 - 0,1,2 0:1.0.0 0:0.1.0;1:1.2.0 20000",
        # same with receiver-dedup items and a duplicate request
        "pl-explore 2 3 - - 0:1.0.0,1.0.0;1:0.1.0 0:0.1.0;1:1.2.0,1.0.0 20000",
        # 3 groups, group 2 delayed, self-send through the slot from the delayed group
        "pl-explore 3 4 2 0,1 0:2.0.0;1:2.1.0 0:1.2.0,2.3.1;1:0.3.0 20000",
    ]
    outs = ctx.model_eval(lines)
    for l, o in zip(lines, outs):
        ctx.count("explore", o.split()[-1] if o.startswith("explored") else "error")
        ctx.note_case(("explore", l))
        if not (o.startswith("explored") and o.endswith(" ok")):
            ctx.broken.append(f"model exploration: {l!r} -> {o!r}")
    ctx.sample({"explore": lines[2], "result": outs[2]})


def run(ctx):
    shape_ok = check_shape(ctx)
    explore_small(ctx)
    rng = ctx.rng
    nprog = 12 if ctx.quick else 120
    scheds_per = 9 if ctx.quick else 40
    budget = 80 if ctx.quick else 1200
    t_start = time.time()
    base = os.path.join(ctx.scratch, "c39")
    os.makedirs(base, exist_ok=True)
    pending = []      # (request line, meta)
    n_traces = 0
    for pi in range(nprog):
        if time.time() - t_start > budget:
            ctx.count("budget", "stopped-early")
            break
        sizes = [2, 3, 4, 6, 8, 12, 16, 24, 32, 48, 64]
        nobj = sizes[pi % len(sizes)] if ctx.quick else rng.choice(sizes)
        prog = gen_program(rng.fork(), nobj, ctx.quick)
        d = os.path.join(base, f"p{pi}")
        args = build_program(prog, d)
        exp_syms, loaded = expected_kept(prog)
        ctx.count("objects", str(nobj))
        ctx.count("archives", str(len(prog.archives)))
        ctx.count("start_stop_sets", str(len(prog.setmembers)))
        ctx.count("shared_library_data_refs", "yes" if prog.shared_vars else "no")
        results = {}   # fpg -> (kept set, first config)
        r2 = rng.fork()
        for si in range(scheds_per):
            threads = r2.choice([1, 2, 2, 3, 4, 4, 8, 16])
            fpg = r2.choice([1, 1, 1, 2, 3, 5, None])
            seed = None if si == 0 else r2.below(1 << 32)
            out = os.path.join(d, "out")
            trace = os.path.join(d, f"trace{si}.txt")
            rc, err, cmd, envs, dt = link_once(args, out, trace, threads, fpg, seed)
            n_traces += 1
            ctx.count("threads", str(threads))
            ctx.count("files_per_group", str(fpg))
            cfg = {"program": pi, "objects": nobj, "threads": threads, "files_per_group": fpg, "sched_seed": seed}
            def replay_info(extra=None, keep=()):
                tag = hashlib.sha256(json.dumps([ctx.seed, cfg], sort_keys=True).encode()).hexdigest()[:10]
                kept = keep_replay(ctx, tag, [d] if keep == "dir" else list(keep))
                r = {"config": cfg, "cmd": " ".join(cmd).replace(ctx.scratch, "<scratch>"), "env": envs, "saved": kept,
                     "how": "rebuild inputs with `as`/`ar` from the saved .s files (or use the saved .o/.a), run cmd with env; "
                            "WILD_VERIF_SCHED_LAYOUT=<seed> reproduces the perturbation decisions (not the OS schedule)"}
                if extra:
                    r.update(extra)
                return r
            if rc == -999 and os.path.exists(trace) and any(l.split()[2:3] == ["end"] for l in open(trace)):
                # the traversal itself finished (its `end` event is in the trace); whatever keeps the link from
                # finishing comes later in the pipeline and is not C39's concern. The trace is still replayed.
                ctx.count("timeout", "after-traversal-ended")
                ctx.assumptions.append(f"link {cfg} exceeded {LINK_TIMEOUT}s AFTER the traversal had ended (not a C39 matter)")
                rc = 0
                skip_output = True
            else:
                skip_output = False
            if rc == -999:
                ctx.cov["impl_oracle_failures"] += 1
                ctx.violation(f"hang:{nobj}:{threads}", f"link did not finish within {LINK_TIMEOUT}s (C39: always finishes)",
                              replay_info({"trace_prefix_lines": sum(1 for _ in open(trace)) if os.path.exists(trace) else 0}, keep="dir"))
                continue
            if rc != 0:
                # our programs always link; an error (e.g. undefined symbol after lost work) is a failure of the oracle
                ctx.cov["impl_oracle_failures"] += 1
                ctx.violation(f"link-error:{nobj}", f"link failed on a valid program: {err.strip()[-300:]}", replay_info(keep="dir"))
                continue
            if not os.path.exists(trace):
                ctx.broken.append("no trace written (hooks missing from layout.rs / trace.rs?)")
                continue
            try:
                evs = parse_trace(trace)
                line, info = trace_to_request(evs)
            except TraceError as e:
                ctx.broken.append(f"trace not understood: {e}")
                continue
            if info["thread_problems"]:
                ctx.violation("two-threads-one-group", f"events of one group state come from two threads: {info['thread_problems'][:3]}",
                              replay_info(keep="dir"))
            ctx.count("groups", str(info["groups"]))
            ctx.count("cross_sends", "0" if info["cross_sends"] == 0 else ("1-9" if info["cross_sends"] < 10 else ("10-99" if info["cross_sends"] < 100 else "100+")))
            ctx.count("delayed_group_used", str(info["delayed"] is not None and any(l.startswith("r,") for l in line.split(" ")[-1].split(";"))))
            pending.append((line, {"cfg": cfg, "cmd": cmd, "envs": envs, "trace": trace, "dir": d, "info": info}))
            if skip_output:
                continue
            # independent oracle on the output
            kept = nm_defined(out)
            mine = set(s for s in kept if re.match(r"(d_)?f\d+_\d+$", s))
            missing = exp_syms - mine
            extra = mine - exp_syms
            if missing:
                ctx.cov["impl_oracle_failures"] += 1
                ctx.violation(f"lost-section:{nobj}", f"output lacks reachable symbols {sorted(missing)[:6]} (lost work)",
                              replay_info({"missing": sorted(missing), "expected": sorted(exp_syms)}, keep="dir"))
            if extra:
                ctx.count("oracle", "kept-more-than-closure")
                ctx.extra_kept = getattr(ctx, "extra_kept", 0) + 1
            else:
                ctx.count("oracle", "kept==closure" if not missing else "missing")
            # item names contain group/file ids: they are comparable only between links with the same grouping, and the grouping
            # depends on WILD_FILES_PER_GROUP and (through symbols-per-group) on the thread count. The kept symbols are compared
            # between ALL links of the program.
            key = (fpg, threads)
            popped = tuple(info["popped"])
            if "kept" not in results:
                results["kept"] = (mine, cfg)
            elif results["kept"][0] != mine:
                ctx.cov["impl_oracle_failures"] += 1
                ctx.violation(f"schedule-dependent:{nobj}", "kept symbol set differs between two links of the same program (different schedule / grouping)",
                              replay_info({"other": results["kept"][1], "diff_syms": sorted(results["kept"][0] ^ mine)[:10]}, keep="dir"))
            if key in results:
                if results[key][0] != mine or results[key][1] != popped:
                    ctx.cov["impl_oracle_failures"] += 1
                    ctx.violation(f"schedule-dependent:{nobj}", "kept set / processed item set differs between two schedules of the same link",
                                  replay_info({"other": results[key][2], "diff_syms": sorted(results[key][0] ^ mine)[:10],
                                               "diff_items": sorted(set(results[key][1]) ^ set(popped))[:10]}, keep="dir"))
            else:
                results[key] = (mine, popped, cfg)
            # run the program: exit status 0 expected
            if si == 0:
                try:
                    pr = subprocess.run([out], timeout=10)
                    if pr.returncode != 0:
                        ctx.violation(f"run:{nobj}", f"linked program exits with {pr.returncode}", replay_info(keep="dir"))
                except (subprocess.TimeoutExpired, OSError) as e:
                    ctx.violation(f"run:{nobj}", f"linked program does not run: {e}", replay_info(keep="dir"))
        # replay this program's traces now (keeps memory and the scratch dir small)
        _replay_pending(ctx, pending)
        pending.clear()
        shutil.rmtree(d, ignore_errors=True)
    ctx.count("traces", "total", n_traces)
    if getattr(ctx, "extra_kept", 0):
        ctx.assumptions.append(f"{ctx.extra_kept} link(s) kept more symbols than the Python closure (GC precision, not a C39 matter)")
    if not shape_ok:
        # the shape changed: the traces above are the search on the implementation; nothing else to do here
        pass


def _replay_pending(ctx, pending):
    if not pending:
        return
    lines = [p[0] for p in pending]
    outs = ctx.model_eval(lines)
    c = ctx.cov["correspondences"].setdefault("pl-replay", {"requests": 0, "disagreements": 0})
    for (line, meta), o in zip(pending, outs):
        info = meta["info"]
        ev_hash = hashlib.blake2b(line.split(" ")[-1].encode(), digest_size=8).hexdigest()
        ctx.note_case(("trace", ev_hash), nontrivial=info["cross_sends"] > 0)
        c["requests"] += 1
        ctx.sample({"correspondence": "pl-replay", "config": meta["cfg"], "events": info["events"], "groups": info["groups"],
                    "cross_sends": info["cross_sends"], "model": o}, cap=6)
        if o.startswith("ok "):
            ctx.count("replay", "ok")
            continue
        c["disagreements"] += 1
        ctx.cov["model_disagreements"] += 1
        ctx.count("replay", o.split(" ")[0])
        tag = hashlib.sha256(json.dumps([ctx.seed, meta["cfg"]], sort_keys=True).encode()).hexdigest()[:10]
        req = os.path.join(meta["dir"], "pl-replay-request.txt")
        with open(req, "w") as f:
            f.write(line + "\n")
        saved = keep_replay(ctx, tag, [meta["dir"]])
        ctx.violation("trace-rejected:" + o.split(":")[0].split(" at ")[0],
                      f"the model does not accept a recorded run of the traversal: {o}",
                      {"config": meta["cfg"], "cmd": " ".join(meta["cmd"]).replace(ctx.scratch, "<scratch>"), "env": meta["envs"],
                       "model_verdict": o, "saved": saved, "trace": os.path.basename(meta["trace"]),
                       "how": "cat <saved>/pl-replay-request.txt | /verif/lean/.lake/build/bin/wmdriver   (model side); "
                              "re-run cmd with env for a fresh trace"})
