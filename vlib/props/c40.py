"""C40 - Parallel string merging hands every input to every bucket in order and finishes.

Proof: lean/WildModel/Props/C40.lean over the interleaving model lean/WildModel/Model/ProtoMerge.lean.
Tie (T4, trace conformance): the hooked wild (/repo/libwild/src/verif_api/mtrace.rs + add-only hooks in
string_merging.rs) records the linearised sequence of protocol operations of every `add_input_sections`
call; each trace is replayed through the model's `step?` by `wmdriver pm-replay` (every event must be
enabled with exactly the observed values, the state invariant must hold, the final state must be the
model's good terminal state and agree with the observed `available`/finished count).
Oracles independent of the model: every run must terminate (timeout => "does not finish"), exit 0, and all
runs of one input (all schedules, thread counts, group sizes, parallelism knobs, hooks idle or recording)
must produce byte-identical output.
"""
import hashlib
import os
import subprocess

from vlib import runner

NEEDS_WILD = True
LEAN_MODULES = ["WildModel.Props.C40"]
THEOREMS = [
    "Wild.ProtoMerge.inv_init",
    "Wild.ProtoMerge.inv_step",
    "Wild.ProtoMerge.inv_reachable",
    "Wild.ProtoMerge.bucket_order",
    "Wild.ProtoMerge.no_stall",
    "Wild.ProtoMerge.terminal_all_finished",
    "Wild.ProtoMerge.measure_step_partial",
    "Wild.ProtoMerge.run_length_partial",
    "Wild.ProtoMerge.terminates_witness",
]
LEVEL = "proof"
TRUSTED = [
    "hand-written model lean/WildModel/Model/ProtoMerge.lean of the protocol in libwild/src/string_merging.rs, tied by trace conformance "
    "(pm-replay) on instrumented real links",
    "rayon modelled as: any live task may take the next step, all spawned tasks run before the scope returns; scope.spawn is folded into the "
    "step that spawns",
    "Mutex/atomics modelled as sequentially consistent interleaving (the code uses Ordering::Relaxed on `available`; the hooked binary "
    "serialises instrumented operations under one recorder lock while tracing)",
    "Rust ownership (one owner per SectionGroup / Box<MergeStringsSectionBucket>) is built into the shape of the model state",
    "recorder /repo/libwild/src/verif_api/mtrace.rs and the add-only hooks in string_merging.rs (cfg(feature = verif))",
]
ASSUMPTIONS = [
    "G, B, P >= 1 (add_input_sections is skipped for empty inputs; MERGE_STRING_BUCKETS = 16; split parallelism >= 1)",
    "the error path of process_input_section (unterminated string: vectors dropped, bucket left waiting) is not part of the model",
]
RULE = ("a case is one recorded add_input_sections trace (one output section of one link under one schedule); non-trivial iff it has more "
        "than one input group (hand-off between input tasks and bucket tasks happens); distinct by hash of the event sequence")
EXPLANATION = (
    "Safety (order, exactly-once, accounting), no-stall and the terminal-state theorem hold for all G,B,P>=1 and all interleavings. "
    "Termination under EVERY interleaving does not hold for the code as written: try_spawn_input_processing reserves without looking at "
    "`unprocessed`, so after the queue is empty the cycle load / cas-ok / spawn / pop None / unreserve(16) can repeat for as long as the "
    "scheduler lets the spawned task finish before the spawning loop loads again (theorem terminates_witness; demonstrated on the real "
    "binary with WILD_VERIF_SCHED=spin:<k>, known finding empty-reservation-spin). Proved instead: every other step decreases the measure "
    "and each such empty reservation raises it by at most 3 (measure_step_partial, run_length_partial).")

SPIN_KEY = "empty-reservation-spin"
TIMEOUT_S = 60          # first attempt; a timeout is re-run once with RETRY_TIMEOUT_S before it counts as a hang
RETRY_TIMEOUT_S = 300


def gen_input(rng, d, idx, total_bytes, n_obj):
    """Objects with SHF_MERGE|SHF_STRINGS sections (.rodata.str1.1 and .comment), many duplicates."""
    vocab = [f"w{rng.below(1 << 20):x}" + "y" * rng.below(30) for _ in range(max(8, total_bytes // 40))]
    objs = []
    per_obj = max(64, total_bytes // n_obj)
    for o in range(n_obj):
        lines = []
        if o == 0:
            lines += [".text", ".globl _start", "_start:", "  mov $60,%eax", "  xor %edi,%edi", "  syscall"]
        lines.append('.section .rodata.str1.1,"aMS",@progbits,1')
        size = 0
        n = 0
        while size < per_obj:
            s = rng.choice(vocab) if rng.chance(2, 3) else f"u{idx}_{o}_{n}" + "z" * rng.below(50)
            lines.append(f'.Ls{o}_{n}: .string "{s}"')
            size += len(s) + 1
            n += 1
        lines.append('.section .comment,"MS",@progbits,1')
        csize = 0
        cn = 0
        while csize < per_obj // 3:
            s = rng.choice(vocab)
            lines.append(f'.string "{s}"')
            csize += len(s) + 1
            cn += 1
        lines += [".text", f".globl f{o}", f"f{o}:"]
        for i in range(0, n, 5):
            lines.append(f"  lea .Ls{o}_{i}(%rip),%rax")
        lines.append("  ret")
        p = os.path.join(d, f"i{idx}_o{o}.s")
        with open(p, "w") as f:
            f.write("\n".join(lines) + "\n")
        obj = p[:-2] + ".o"
        subprocess.run(["as", p, "-o", obj], check=True, stderr=subprocess.DEVNULL)
        objs.append(obj)
    return objs


def run_wild(objs, out, threads, par, group_bytes, trace=None, sched=None, timeout=None):
    cmd = [runner.WILD, "--no-fork", f"--threads={threads}", f"--wild-experiments={par},{group_bytes}", "-o", out] + objs
    env = {k: v for k, v in os.environ.items() if not k.startswith("WILD_VERIF")}
    if trace:
        env["WILD_VERIF_MTRACE"] = trace
    if sched is not None:
        env["WILD_VERIF_SCHED"] = str(sched)
    try:
        p = subprocess.run(cmd, env=env, stdout=subprocess.PIPE, stderr=subprocess.STDOUT, timeout=timeout or TIMEOUT_S, text=True)
        return p.returncode, p.stdout, cmd
    except subprocess.TimeoutExpired:
        return None, "timeout", cmd


def to_request(line, period):
    ev = line.strip().split(";")
    b = ev[0].split(",")
    e = ev[-1].split(",")
    if b[0] != "begin" or e[0] != "end":
        return None, None
    G, B, cap = int(b[1]), int(b[2]), int(b[3])
    body = ";".join(ev[1:-1]) or "-"
    return f"pm-replay {G} {B} {cap // B} {period} {e[1]} {e[2]} {body}", (G, B, cap // B, len(ev) - 2)


def sha(path):
    with open(path, "rb") as f:
        return hashlib.sha256(f.read()).hexdigest()


def run(ctx):
    r = ctx.rng
    d = ctx.scratch
    n_inputs = 8 if ctx.quick else 40
    runs_per_input = 8 if ctx.quick else 40
    pars = [1, 2, 3, 24]
    # --- small-instance exhaustive exploration of the model (cross-check of the theorems + search machinery)
    explore = ["pm-explore 1 1 1 200000 all", "pm-explore 2 2 1 200000 all", "pm-explore 2 1 2 200000 all", "pm-explore 2 2 2 200000 all",
               "pm-explore 3 2 1 200000 all", "pm-explore 2 2 2 200000 no-empty-reserve", "pm-explore 3 2 1 200000 no-empty-reserve"]
    if not ctx.quick:
        explore += ["pm-explore 3 2 2 2000000 all", "pm-explore 2 3 2 2000000 all", "pm-explore 4 2 1 2000000 all"]
    for req, out in zip(explore, ctx.model_eval(explore)):
        ctx.note_case(("explore", req))
        ctx.count("explore", req.split(" ", 1)[1] + " -> " + out)
        if "inv=ok" not in out or "terminal=ok" not in out or "truncated=false" not in out:
            ctx.broken.append(f"model exploration {req}: {out}")
        if req.endswith("no-empty-reserve") and "cycle=false" not in out:
            ctx.broken.append(f"model exploration found a cycle that is not an empty reservation: {req}: {out}")
    requests = []   # (request line, meta)
    n_runs = 0
    for idx in range(n_inputs):
        # target number of groups for this input, spread over 1..64
        group_bytes = r.choice([256, 256, 512, 1024, 4096])
        target_g = [2, 64, 5, 21, 1, 40, 3, 12][idx % 8] if idx < 8 else r.range(1, 64)
        n_obj = r.range(1, 5)
        total = max(64, target_g * group_bytes - n_obj * 100)
        objs = gen_input(r.fork(), d, idx, total, n_obj)
        ref = os.path.join(d, f"i{idx}.ref")
        rc, out, cmd = run_wild(objs, ref, 1, 1, 140000)
        if rc != 0:
            ctx.cov["impl_oracle_failures"] += 1
            ctx.violation("c40-ref-link-failed", f"reference link (hooks idle, one thread) failed rc={rc}: {out[-300:]}",
                          {"cmd": " ".join(cmd), "VERIF_SEED": ctx.seed, "input_index": idx})
        ref_hash = sha(ref) if rc == 0 else None
        for k in range(runs_per_input):
            par = pars[(idx + k) % 4]
            threads = r.choice([1, 2, 3, 4, 8])
            gb = group_bytes if k % 3 else r.choice([256, 512, 768, 2048])
            seed = r.below(1 << 30)
            sched = None if k == 0 else seed
            tr = os.path.join(d, f"i{idx}_r{k}.trace")
            outp = os.path.join(d, f"i{idx}_r{k}.out")
            rc, out, cmd = run_wild(objs, outp, threads, par, gb, trace=tr, sched=sched)
            if rc is None:
                # loaded machine or a real hang? same configuration again with a generous limit
                ctx.count("runs", "first attempt timed out", 1)
                if os.path.exists(tr):
                    os.unlink(tr)
                rc, out, cmd = run_wild(objs, outp, threads, par, gb, trace=tr, sched=sched, timeout=RETRY_TIMEOUT_S)
            n_runs += 1
            how = {"cmd": " ".join(cmd), "env": f"WILD_VERIF_MTRACE=<file> WILD_VERIF_SCHED={sched}", "inputs": "generated by vlib/props/c40.py gen_input",
                   "VERIF_SEED": ctx.seed, "input_index": idx}
            ctx.count("threads", str(threads))
            ctx.count("split_parallelism", str(par))
            if rc is None:
                ctx.cov["impl_oracle_failures"] += 1
                ctx.violation(f"c40-hang-P{par}", f"string merging does not finish within {TIMEOUT_S}s and, re-run, within {RETRY_TIMEOUT_S}s (threads={threads}, P={par}, group bytes={gb})", how)
                continue
            if rc != 0:
                ctx.cov["impl_oracle_failures"] += 1
                ctx.violation(f"c40-link-failed-P{par}", f"link failed rc={rc}: {out[-400:]}", how)
            h = sha(outp) if rc == 0 else None
            if os.path.exists(outp):
                os.unlink(outp)
            if rc == 0 and ref_hash is not None and h != ref_hash:
                ctx.cov["impl_oracle_failures"] += 1
                ctx.violation("c40-output-differs", f"output differs between schedules/knobs (threads={threads}, P={par}, group bytes={gb}, sched={sched}) "
                              "and the single-threaded reference", how)
            if not os.path.exists(tr):
                if rc == 0:
                    ctx.broken.append("hooked wild wrote no trace (WILD_VERIF_MTRACE ignored?)")
                continue
            for line in open(tr):
                req, meta = to_request(line, 0)
                if req is None:
                    ctx.broken.append("malformed trace line")
                    continue
                # full invariant (all cells + accounting) about 40 times per trace, and always at the end
                req, meta = to_request(line, max(1, meta[3] // 40))
                requests.append((req, meta, how))
            os.unlink(tr)
    ctx.count("runs", "instrumented links", n_runs)
    # --- replay all traces in the model
    outs = ctx.model_eval([q[0] for q in requests]) if requests else []
    c = ctx.cov["correspondences"].setdefault("pm-replay", {"requests": 0, "disagreements": 0})
    for (req, (G, B, P, n), how), out in zip(requests, outs):
        ctx.note_case(("trace", hashlib.sha256(req.encode()).hexdigest()), nontrivial=G > 1)
        c["requests"] += 1
        ctx.count("groups", "1" if G == 1 else "2-4" if G <= 4 else "5-16" if G <= 16 else "17-40" if G <= 40 else "41-64" if G <= 64 else ">64")
        ctx.count("P", str(P))
        ctx.count("events", "<200" if n < 200 else "<1000" if n < 1000 else "<3000" if n < 3000 else ">=3000")
        t = req.split(" ")[7].split(";")
        ctx.count("race", "failed cas", sum(1 for e in t if e.startswith("cs,") and e.endswith(",0")))
        ctx.count("race", "load below B", sum(1 for e in t if e.startswith("ld,") and int(e.split(",")[2]) < B))
        ctx.count("race", "parked (slot not Strings)", sum(1 for e in t if e.startswith("tk,") and not e.endswith(",s")))
        ctx.count("race", "swap woke waiting bucket", sum(1 for e in t if e.startswith("sw,") and ",w" in e))
        ctx.count("race", "empty pop", sum(1 for e in t if e == "pp,-"))
        ctx.sample({"correspondence": "pm-replay", "G": G, "B": B, "P": P, "events": n, "model": out, "trace_head": ";".join(t[:12])}, cap=6)
        if not out.startswith("ok "):
            c["disagreements"] += 1
            ctx.cov["model_disagreements"] += 1
            ctx.violation("c40-trace-" + out.split(" ")[0], f"recorded trace is not a run of the protocol model / violates its invariant: {out} (G={G} B={B} P={P})",
                          dict(how, request=req if len(req) < 200000 else req[:200000] + "...", model_answer=out,
                               replay_cmd="echo '<request>' | /verif/lean/.lake/build/bin/wmdriver"))
    # --- known finding: unbounded empty reservations under an adversarial (delaying) scheduler
    spin_demo(ctx, d)


def spin_demo(ctx, d):
    k = 40
    objs = gen_input(ctx.rng.fork(), d, 999, 600, 1)
    tr = os.path.join(d, "spin.trace")
    rc, out, cmd = run_wild(objs, os.path.join(d, "spin.out"), 4, 2, 4096, trace=tr, sched=f"spin:{k}")
    if rc != 0 or not os.path.exists(tr):
        ctx.broken.append(f"spin demonstration run failed rc={rc}: {out[-200:]}")
        return
    best = 0
    for line in open(tr):
        req, meta = to_request(line, 1)
        ans = ctx.model_eval([req])[0]
        if not ans.startswith("ok "):
            ctx.violation("c40-trace-spin", f"spin trace rejected by the model: {ans}", {"cmd": " ".join(cmd), "request": req})
        best = max(best, sum(1 for e in line.split(";") if e == "pp,-"))
    ctx.count("spin", f"empty reservations with spin:{k}", best)
    if best >= k:
        ctx.violation(SPIN_KEY,
                      f"try_spawn_input_processing kept reserving with an empty `unprocessed` queue {best} times in one section because the scheduler "
                      f"(WILD_VERIF_SCHED=spin:{k}: 3 ms delay after scope.spawn) let each spawned task pop None and unreserve before the next load; "
                      "the number of iterations is bounded only by the schedule (model: terminates_witness)",
                      {"cmd": " ".join(cmd), "env": f"WILD_VERIF_MTRACE=<file> WILD_VERIF_SCHED=spin:{k}", "empty_pops": best,
                       "note": "any k works; the loop ends as soon as one load happens before the spawned task's unreserve"})
