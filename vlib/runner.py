"""Shared check runner: build -> prove -> correspond -> search -> verdict -> evidence.

Every property module in vlib/props/cNN.py exposes
    LEAN_MODULES : list of lake module names holding the property theorems
    THEOREMS     : list of fully-qualified theorem names (the proof obligations; audited)
    LEVEL        : evidence level ("proof", ...)
    TRUSTED      : list of trusted-base strings
    def run(ctx) : performs regeneration / correspondence / oracle checks through ctx
"""
import fcntl
import hashlib
import importlib
import json
import os
import re
import shutil
import subprocess
import sys
import tempfile
import time

VERIF = os.path.dirname(os.path.dirname(os.path.abspath(__file__)))
REPO = os.environ.get("WILD_REPO", "/repo").rstrip("/")
TARGET = os.path.join(VERIF, ".target")
LEAN_DIR = os.path.join(VERIF, "lean")
# WILD_REPO=<other checkout> (used only to try the checks against seeded changes in a scratch worktree
# without touching /repo): separate cargo target dirs and a path-rewritten copy of the harness crate.
ALT = None if REPO == "/repo" else os.path.join(TARGET, "alt", REPO.strip("/").replace("/", "_"))
BUILD_ROOT = TARGET if ALT is None else ALT
OUT_ROOT = VERIF if ALT is None else ALT   # evidence/ and replays/ of alt runs never overwrite the real ones
HARNESS_DIR = os.path.join(VERIF, "harness") if ALT is None else os.path.join(ALT, "harness")
WVH = os.path.join(BUILD_ROOT, "wvh", "debug", "wvh")
WILD = os.path.join(BUILD_ROOT, "wild", "debug", "wild")
DRIVER = os.path.join(LEAN_DIR, ".lake", "build", "bin", "wmdriver")
STD_AXIOMS = {"propext", "Classical.choice", "Quot.sound"}
FORBIDDEN = re.compile(r"\bsorry\b|\badmit\b|^\s*axiom\s|native_decide|implemented_by|\bunsafe\s|maxHeartbeats\s+0\b")

MASK64 = (1 << 64) - 1


class Rng:
    """splitmix64: every random choice of a check derives from VERIF_SEED through this."""

    def __init__(self, seed):
        self.s = seed & MASK64

    def next(self):
        self.s = (self.s + 0x9E3779B97F4A7C15) & MASK64
        z = self.s
        z = ((z ^ (z >> 30)) * 0xBF58476D1CE4E5B9) & MASK64
        z = ((z ^ (z >> 27)) * 0x94D049BB133111EB) & MASK64
        return z ^ (z >> 31)

    def below(self, n):
        return self.next() % n if n > 0 else 0

    def range(self, lo, hi):
        return lo + self.below(hi - lo + 1)

    def choice(self, xs):
        return xs[self.below(len(xs))]

    def chance(self, num, den):
        return self.below(den) < num

    def shuffle(self, xs):
        xs = list(xs)
        for i in range(len(xs) - 1, 0, -1):
            j = self.below(i + 1)
            xs[i], xs[j] = xs[j], xs[i]
        return xs

    def fork(self):
        return Rng(self.next())

    def u64_interesting(self):
        k = self.below(8)
        if k == 0:
            return self.choice([0, 1, 2, MASK64, MASK64 - 1, 1 << 63, (1 << 63) - 1, 1 << 31, (1 << 31) - 1, 1 << 32, (1 << 32) - 1])
        if k == 1:
            return (1 << self.below(64)) + self.range(-2, 2) & MASK64
        if k == 2:
            return (MASK64 - self.below(1 << 17)) & MASK64
        if k == 3:
            return self.below(1 << 20)
        if k == 4:
            return self.next() >> self.below(64)
        return self.next()


class Lock:
    def __init__(self, name):
        os.makedirs(TARGET, exist_ok=True)
        self.path = os.path.join(TARGET, name + ".lock")

    def __enter__(self):
        self.f = open(self.path, "w")
        fcntl.flock(self.f, fcntl.LOCK_EX)

    def __exit__(self, *a):
        fcntl.flock(self.f, fcntl.LOCK_UN)
        self.f.close()


def sh(cmd, cwd=None, timeout=3600, env=None, input=None):
    e = dict(os.environ)
    e.update({"CARGO_NET_OFFLINE": "true"})
    if env:
        e.update(env)
    p = subprocess.run(cmd, cwd=cwd, env=e, input=input, stdout=subprocess.PIPE, stderr=subprocess.STDOUT, timeout=timeout, text=True)
    return p.returncode, p.stdout


class BuildError(Exception):
    pass


def _private_copy(src, dest_dir, name):
    """A concurrent check's rebuild unlinks the shared binary; each check runs its own copy."""
    if dest_dir is None:
        return src
    dst = os.path.join(dest_dir, name)
    shutil.copy2(src, dst)
    return dst


def _sync_alt_harness():
    src = os.path.join(VERIF, "harness")
    os.makedirs(os.path.join(HARNESS_DIR, "src"), exist_ok=True)
    os.makedirs(os.path.join(HARNESS_DIR, ".cargo"), exist_ok=True)
    for fn in os.listdir(os.path.join(src, "src")):
        a, b = os.path.join(src, "src", fn), os.path.join(HARNESS_DIR, "src", fn)
        data = open(a, "rb").read()
        if not os.path.exists(b) or open(b, "rb").read() != data:
            open(b, "wb").write(data)
    toml = open(os.path.join(src, "Cargo.toml")).read().replace('"/repo/', '"' + REPO + '/')
    for name, text in (("Cargo.toml", toml), ("Cargo.lock", open(os.path.join(src, "Cargo.lock")).read()),
                       (".cargo/config.toml", '[net]\noffline = true\n[build]\ntarget-dir = "%s"\n' % os.path.join(ALT, "wvh"))):
        b = os.path.join(HARNESS_DIR, name)
        if not os.path.exists(b) or open(b).read() != text:
            open(b, "w").write(text)


def build_wvh(private_dir=None):
    global WVH
    with Lock("cargo-wvh" if ALT is None else "cargo-wvh-" + os.path.basename(ALT)):
        if ALT is not None:
            _sync_alt_harness()
        rc, out = sh(["cargo", "build", "--offline"], cwd=HARNESS_DIR)
        if rc != 0:
            raise BuildError("cargo build of wvh (harness against the working tree of " + REPO + ") failed:\n" + out[-4000:])
        WVH = _private_copy(os.path.join(BUILD_ROOT, "wvh", "debug", "wvh"), private_dir, "wvh")


def build_wild(private_dir=None):
    global WILD
    with Lock("cargo-wild" if ALT is None else "cargo-wild-" + os.path.basename(ALT)):
        rc, out = sh(["cargo", "build", "--offline", "--manifest-path", os.path.join(REPO, "Cargo.toml"), "-p", "wild-linker",
                      "--features", "verif", "--target-dir", os.path.join(BUILD_ROOT, "wild")])
        if rc != 0:
            raise BuildError("cargo build of wild (feature verif) failed:\n" + out[-4000:])
        WILD = _private_copy(os.path.join(BUILD_ROOT, "wild", "debug", "wild"), private_dir, "wild")


def lake_build(targets):
    with Lock("lake"):
        rc, out = sh(["lake", "build"] + targets, cwd=LEAN_DIR, timeout=3600)
    return rc, out


def lean_source_audit():
    """grep the Lean sources for forbidden constructs (outside comments)."""
    hits = []
    for root, _, files in os.walk(LEAN_DIR):
        if ".lake" in root:
            continue
        for fn in files:
            if not fn.endswith(".lean"):
                continue
            p = os.path.join(root, fn)
            in_block = 0
            for i, line in enumerate(open(p, encoding="utf-8"), 1):
                s = line
                # crude comment stripping
                if in_block:
                    if "-/" in s:
                        in_block = 0
                        s = s.split("-/", 1)[1]
                    else:
                        continue
                if "/-" in s and "-/" not in s.split("/-", 1)[1]:
                    in_block = 1
                    s = s.split("/-", 1)[0]
                s = re.sub(r"/-.*?-/", "", s)
                s = s.split("--", 1)[0]
                if FORBIDDEN.search(s):
                    hits.append(f"{os.path.relpath(p, LEAN_DIR)}:{i}: {line.strip()}")
    return hits


def print_axioms(modules, theorems):
    """Returns {theorem: [axioms]} by running `#print axioms` in the lake environment."""
    src = "".join(f"import {m}\n" for m in modules) + "".join(f"#print axioms {t}\n" for t in theorems)
    with tempfile.NamedTemporaryFile("w", suffix=".lean", dir=LEAN_DIR, delete=False) as f:
        f.write(src)
        path = f.name
    try:
        rc, out = sh(["lake", "env", "lean", path], cwd=LEAN_DIR, timeout=1800)
    finally:
        os.unlink(path)
    res = {}
    # messages look like: 'Name' depends on axioms: [a, b]   or   'Name' does not depend on any axioms
    for m in re.finditer(r"'([^']+)' depends on axioms: \[([^\]]*)\]", out, re.S):
        res[m.group(1)] = [a.strip() for a in m.group(2).replace("\n", " ").split(",") if a.strip()]
    for m in re.finditer(r"'([^']+)' does not depend on any axioms", out):
        res[m.group(1)] = []
    return rc, out, res


class Violation:
    def __init__(self, key, what, replay, found_input=True):
        self.key = key
        self.what = what
        self.replay = replay
        self.found_input = found_input


class Ctx:
    def __init__(self, pid, tier, seed):
        self.pid = pid
        self.tier = tier
        self.seed = seed
        self.rng = Rng(seed ^ int(hashlib.sha256(pid.encode()).hexdigest()[:12], 16))
        self.t0 = time.time()
        self.violations = []       # Violation objects (before known-finding filtering)
        self.broken = []           # names of theorems / correspondences that no longer check
        self.obligations = 0
        self.discharged = 0
        self.axioms = {}
        self.cov = {"evaluations": 0, "distinct_nontrivial": 0, "samples": [], "correspondences": {}, "impl_oracle_failures": 0,
                    "model_disagreements": 0, "input_distribution": {}}
        self.distinct = set()
        self.assumptions = []
        self.scratch = tempfile.mkdtemp(prefix=f"wv.{pid}.", dir=os.environ.get("TMPDIR", "/tmp"))
        self.quick = tier == "quick"

    # ---- counting helpers
    def count(self, bucket, key, n=1):
        d = self.cov["input_distribution"].setdefault(bucket, {})
        d[key] = d.get(key, 0) + n

    def sample(self, s, cap=8):
        if len(self.cov["samples"]) < cap:
            self.cov["samples"].append(s)

    def note_case(self, case, nontrivial=True):
        self.cov["evaluations"] += 1
        if nontrivial:
            h = hashlib.blake2b(repr(case).encode(), digest_size=8).digest()
            self.distinct.add(h)

    # ---- model/impl line protocol
    def run_lines(self, exe, lines, timeout=1800):
        data = "\n".join(lines) + "\n"
        p = subprocess.run([exe], input=data, stdout=subprocess.PIPE, stderr=subprocess.PIPE, text=True, timeout=timeout)
        out = p.stdout.split("\n")
        if out and out[-1] == "":
            out.pop()
        return p.returncode, out, p.stderr

    def differential(self, name, lines, impl_out=None, nontrivial=None, model_out=None):
        """Pipe the same request lines through the real code (wvh, unless impl_out is given) and the
        Lean model driver; returns the list of (request, impl, model) disagreements."""
        if impl_out is None:
            rc, impl_out, err = self.run_lines(WVH, lines)
            if len(impl_out) != len(lines):
                # wvh died (abort / stack overflow): bisect to the line
                bad = self._bisect_crash(lines)
                impl_out = impl_out + ["crash"] * (len(lines) - len(impl_out))
                self.broken.append(f"correspondence {name}: implementation harness crashed on request: {bad}")
        if model_out is None:
            rc, model_out, err = self.run_lines(DRIVER, lines)
            if len(model_out) != len(lines):
                raise BuildError(f"model driver produced {len(model_out)} lines for {len(lines)} requests: {err[-500:]}")
        dis = []
        c = self.cov["correspondences"].setdefault(name, {"requests": 0, "disagreements": 0})
        for i, (l, a, b) in enumerate(zip(lines, impl_out, model_out)):
            nt = True if nontrivial is None else nontrivial(l, a, b)
            self.note_case((name, l), nt)
            if a != b:
                dis.append((l, a, b))
        c["requests"] += len(lines)
        c["disagreements"] += len(dis)
        self.cov["model_disagreements"] += len(dis)
        if lines:
            self.sample({"correspondence": name, "request": lines[0], "impl": impl_out[0], "model": model_out[0]})
            k = len(lines) // 2
            self.sample({"correspondence": name, "request": lines[k], "impl": impl_out[k], "model": model_out[k]})
        if dis:
            self.broken.append(f"correspondence {name}: {len(dis)} disagreement(s), first: request={dis[0][0]!r} impl={dis[0][1]!r} model={dis[0][2]!r}")
        return dis, impl_out, model_out

    def _bisect_crash(self, lines):
        lo, hi = 0, len(lines)
        while hi - lo > 1:
            mid = (lo + hi) // 2
            rc, out, _ = self.run_lines(WVH, lines[lo:mid])
            if len(out) != mid - lo:
                hi = mid
            else:
                lo = mid
        return lines[lo] if lines else None

    def model_eval(self, lines):
        rc, out, err = self.run_lines(DRIVER, lines)
        if len(out) != len(lines):
            raise BuildError(f"model driver failed: {err[-500:]}")
        return out

    def impl_eval(self, lines):
        rc, out, err = self.run_lines(WVH, lines)
        return out

    # ---- verdict helpers
    def violation(self, key, what, replay, found_input=True):
        self.violations.append(Violation(key, what, replay, found_input))

    def replay_dir(self):
        d = os.path.join(OUT_ROOT, "replays", self.pid + "-files")
        os.makedirs(d, exist_ok=True)
        return d

    def cleanup(self):
        shutil.rmtree(self.scratch, ignore_errors=True)


def load_known():
    p = os.path.join(VERIF, "known_findings.json")
    if not os.path.exists(p):
        return []
    return json.load(open(p)).get("findings", [])


def write_evidence(pid, ev):
    os.makedirs(os.path.join(OUT_ROOT, "evidence"), exist_ok=True)
    p = os.path.join(OUT_ROOT, "evidence", pid + ".json")
    tmp = p + ".tmp"
    with open(tmp, "w") as f:
        json.dump(ev, f, indent=1, sort_keys=True, default=str)
    os.replace(tmp, p)


def main(argv):
    import argparse
    ap = argparse.ArgumentParser()
    ap.add_argument("pid")
    ap.add_argument("--tier", default=os.environ.get("VERIF_TIER", "quick"))
    ap.add_argument("--replay")
    a = ap.parse_args(argv)
    pid = a.pid.upper()
    tier = a.tier if a.tier in ("quick", "thorough") else "quick"
    seed = int(os.environ.get("VERIF_SEED", "1"))
    mod = importlib.import_module("vlib.props." + pid.lower())
    ctx = Ctx(pid, tier, seed)
    if a.replay:
        ctx.replay = json.load(open(a.replay))
    else:
        ctx.replay = None
    rc = 2
    try:
        rc = _run(mod, ctx)
    except BuildError as e:
        print(f"CHECK-ERROR property={pid}: {e}")
        rc = 2
    finally:
        ctx.cleanup()
    return rc


def _run(mod, ctx):
    pid = ctx.pid
    level = getattr(mod, "LEVEL", "proof")
    # 1. build the implementation side from /repo's working tree (hooks on)
    bindir = os.path.join(ctx.scratch, "bin")
    os.makedirs(bindir, exist_ok=True)
    build_wvh(bindir)
    if getattr(mod, "NEEDS_WILD", False):
        build_wild(bindir)
    # 2. regenerate the Gen/*.lean files the property depends on (T1/T2)
    if hasattr(mod, "regenerate"):
        mod.regenerate(ctx)
    # 3. proofs
    theorems = list(getattr(mod, "THEOREMS", []))
    modules = list(getattr(mod, "LEAN_MODULES", []))
    ctx.obligations = len(theorems)
    rc, out = lake_build(modules + ["wmdriver"])
    proofs_ok = rc == 0
    if rc != 0:
        # the driver must exist for the search; build it alone (it does not import Props)
        rc2, out2 = lake_build(["wmdriver"])
        if rc2 != 0:
            raise BuildError("lake build wmdriver failed:\n" + out2[-3000:])
        # find which theorem modules fail
        proofs_ok = True
        for m in modules:
            r, o = lake_build([m])
            if r != 0:
                proofs_ok = False
                errs = re.findall(r"error: ([^\n]*)", o)
                ctx.broken.append(f"lake build {m} failed: " + "; ".join(errs[:3]))
    if proofs_ok:
        hits = lean_source_audit()
        if hits:
            ctx.broken.append("forbidden construct in Lean sources: " + "; ".join(hits[:5]))
        arc, aout, ax = print_axioms(modules, theorems)
        ctx.axioms = ax
        allowed_bv = getattr(mod, "ALLOW_BV_DECIDE", True)
        for t in theorems:
            if t not in ax:
                ctx.broken.append(f"theorem {t} not found by #print axioms")
                continue
            bad = [x for x in ax[t] if x not in STD_AXIOMS and not (allowed_bv and "._native.bv_decide.ax_" in x)]
            if bad:
                ctx.broken.append(f"theorem {t} depends on undeclared axioms {bad}")
            else:
                ctx.discharged += 1
        if ctx.tier == "thorough" and not ctx.broken:
            for m in modules:
                r, o = sh(["lake", "env", "leanchecker", m], cwd=LEAN_DIR, timeout=3600)
                if r != 0:
                    ctx.broken.append(f"leanchecker {m} failed: {o[-300:]}")
    # 4. correspondence + oracle checks + search (property specific)
    mod.run(ctx)
    # 5. verdict
    known = [k for k in load_known() if k.get("property") == pid and k.get("status", "open") == "open"]
    known_keys = {k["key"]: k for k in known}
    if ctx.broken and not any(v.key not in known_keys for v in ctx.violations):
        # nothing concrete (beyond already-recorded findings) found by the property's search: still a violation
        ctx.violation("broken:" + hashlib.sha256("|".join(ctx.broken).encode()).hexdigest()[:12],
                      "proof obligation or correspondence no longer checks", {"broken": ctx.broken}, found_input=False)
    reported = []
    known_hit = {}
    for v in ctx.violations:
        if v.key in known_keys:
            known_hit[v.key] = v
        else:
            reported.append(v)
    for k, v in known_hit.items():
        print(f"KNOWN-FINDING: property={pid} {known_keys[k].get('what', v.what)}")
    os.makedirs(os.path.join(OUT_ROOT, "replays"), exist_ok=True)
    exit_code = 0
    seen = set()
    for v in reported:
        if v.key in seen:
            continue
        seen.add(v.key)
        rp = os.path.join(OUT_ROOT, "replays", f"{pid}-{hashlib.sha256(v.key.encode()).hexdigest()[:10]}.json")
        with open(rp, "w") as f:
            json.dump({"property": pid, "key": v.key, "what": v.what, "replay": v.replay, "broken": ctx.broken, "seed": ctx.seed, "tier": ctx.tier,
                       "found_failing_input": v.found_input}, f, indent=1, default=str)
        tail = "" if v.found_input else " no-failing-input-found"
        print(f"VIOLATION property={pid} replay={rp}{tail}")
        exit_code = 1
    # 6. evidence
    cov = ctx.cov
    cov["distinct_nontrivial"] = len(ctx.distinct)
    cov["obligations"] = ctx.obligations
    cov["discharged"] = ctx.discharged
    cov["checker_cmd"] = "cd /verif/lean && lake build " + " ".join(modules) + " && lake env lean <#print axioms audit>" + (" && lake env leanchecker <module>" if ctx.tier == "thorough" else "")
    cov["trusted_base"] = list(getattr(mod, "TRUSTED", [])) + [
        "Lean 4.33.0 kernel; axioms per theorem listed under coverage.axioms",
        "correspondence machinery: /verif/harness (wvh), /verif/lean/Driver (wmdriver), /verif/vlib",
    ]
    cov["axioms"] = ctx.axioms
    cov["theorems"] = theorems
    cov["rule"] = getattr(mod, "RULE", "generated request lines; a case is non-trivial unless the property module says otherwise; distinct by hash of the request")
    cov["broken"] = ctx.broken
    cov["known_findings_hit"] = sorted(known_hit.keys())
    if hasattr(mod, "EXPLANATION"):
        cov["explanation"] = mod.EXPLANATION
    if not cov["samples"]:
        cov["samples"] = [{"theorem": t} for t in theorems[:3]]
    ev = {
        "property_id": pid, "tier": ctx.tier, "seed": ctx.seed, "level": level, "coverage": cov,
        "assumptions": list(getattr(mod, "ASSUMPTIONS", [])) + ctx.assumptions,
        "wall_s": round(time.time() - ctx.t0, 2), "violations": len(seen),
    }
    write_evidence(pid, ev)
    print(f"{pid}: tier={ctx.tier} obligations={ctx.obligations} discharged={ctx.discharged} evaluations={cov['evaluations']} "
          f"disagreements={cov['model_disagreements']} impl_oracle_failures={cov['impl_oracle_failures']} violations={len(seen)} known={len(known_hit)} "
          f"wall={ev['wall_s']}s")
    return exit_code
